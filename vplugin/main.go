// vplugin is the scripted plugin: a real go-plugin server (plugin.Serve)
// configurable from a JSON file named in argv[1], plus raw modes that never
// call Serve. It is steered over a side channel (Unix socket, JSON lines) so
// that commands do not travel through the code under test.
package main

import (
	"bufio"
	"context"
	"crypto/tls"
	"encoding/base64"
	"encoding/hex"
	"encoding/json"
	"fmt"
	"net"
	"os"
	"sort"
	"strconv"
	"strings"
	"sync"
	"syscall"
	"time"

	hclog "github.com/hashicorp/go-hclog"
	plugin "github.com/hashicorp/go-plugin"
	"verif/spec"
	"verif/vp"
)

type Cfg struct {
	Mode string `json:"mode"` // serve | raw | envdump | impostor

	// serve
	Versioned      map[string]string `json:"versioned"`  // version -> "netrpc" | "grpc"
	Legacy         *LegacyCfg        `json:"legacy"`     // ProtocolVersion + Plugins
	GRPCServer     *bool             `json:"grpcServer"` // default: true iff any grpc set
	Names          []string          `json:"names"`
	TLSCert        string            `json:"tlsCert"` // PEM files => TLSProvider
	TLSKey         string            `json:"tlsKey"`
	TLSClientCA    string            `json:"tlsClientCA"` // require client certs signed by this
	TLSRootCA      string            `json:"tlsRootCA"`   // trust this certificate when the plugin dials the host (brokered connections); sets ServerName localhost
	CookieKey      *string           `json:"cookieKey"`
	CookieValue    *string           `json:"cookieValue"`
	LogLevel       string            `json:"logLevel"`
	Marker         string            `json:"marker"`      // written after Serve returned and cleanup ran
	ExitDelayMs    int               `json:"exitDelayMs"` // "cleanup" duration after Serve returns
	NeverExit      bool              `json:"neverExit"`
	ShutdownChatMs int               `json:"shutdownChatMs"` // after Serve returned: a log line to the real stderr every this many ms
	Ctl            string            `json:"ctl"`
	PreWrite       *WritePlan        `json:"preWrite"` // issued the moment serving starts
	StartedFile    string            `json:"startedFile"`
	ChatterAfterMs int               `json:"chatterAfterMs"` // print lines to os.Stdout from a goroutine, starting this long after the handshake line
	EarlyStderrMs  int               `json:"earlyStderrMs"`  // from process start: lines written to the process' stderr every 200 µs for this long (start-up logging)
	PreTestSync    bool              `json:"preTestSync"`    // ... with ServeTestConfig.SyncStdio set
	PreTestServe   bool              `json:"preTestServe"`   // serve once in test mode (and stop) before serving for real
	UnsetEnv       []string          `json:"unsetEnv"`       // emulate an older plugin that does not know these variables
	TmpDir         string            `json:"tmpDir"`         // private sandbox: becomes this process' TMPDIR (the host's own TMPDIR would otherwise win in the inherited environment)

	// raw
	LineHex           string `json:"lineHex"`
	StderrHex         string `json:"stderrHex"`
	After             string `json:"after"` // exit | hang | closeStdout
	ExitCode          int    `json:"exitCode"`
	DelayMs           int    `json:"delayMs"`
	EnvDumpTo         string `json:"envDumpTo"`
	ImpostorOf        string `json:"impostorOf"`  // netrpc | grpc
	ExitAfterMs       int    `json:"exitAfterMs"` // raw mode: stay alive this long after writing, then exit
	Plaintext         bool   `json:"plaintext"`
	ImpChain          string `json:"impChain"`          // "" | ipsan | localhost: serve own leaf with the announced certificate appended
	ImpSaveTo         string `json:"impSaveTo"`         // impostor: write the served certificate and key here
	ImpServeFrom      string `json:"impServeFrom"`      // impostor: serve with the certificate and key saved there (by an earlier launch)
	ImpAnnounceServed bool   `json:"impAnnounceServed"` // announce the certificate actually served (a well-behaved plugin)
	ImpAnnounce       string `json:"impAnnounce"`       // "none": the line carries no certificate field; "short": a certificate field of three characters
}

type LegacyCfg struct {
	Version int    `json:"version"`
	Proto   string `json:"proto"`
}

type WritePlan struct {
	Seed   int64   `json:"seed"`
	Frames []Frame `json:"frames"`
	Ack    string  `json:"ack"` // file to create when done
}
type Frame struct {
	Stream string `json:"s"` // "o" | "e"
	Len    int    `json:"n"`
	GapUs  int    `json:"g"`
}

var (
	origOut = os.Stdout
	origErr = os.Stderr
	core    = vp.NewCore()
	cfg     Cfg
)

func main() {
	if len(os.Args) < 2 {
		fmt.Fprintln(os.Stderr, "usage: vplugin <cfg.json>")
		os.Exit(64)
	}
	b, err := os.ReadFile(os.Args[1])
	if err != nil {
		fmt.Fprintln(os.Stderr, "vplugin:", err)
		os.Exit(64)
	}
	if err := json.Unmarshal(b, &cfg); err != nil {
		fmt.Fprintln(os.Stderr, "vplugin: cfg:", err)
		os.Exit(64)
	}
	if cfg.TmpDir != "" {
		os.Setenv("TMPDIR", cfg.TmpDir)
	}
	for _, k := range cfg.UnsetEnv {
		os.Unsetenv(k)
	}
	if cfg.StartedFile != "" {
		// (written under another name and renamed: a process killed at this very moment must not leave a
		// file that exists but is empty)
		tmp := cfg.StartedFile + ".tmp"
		if os.WriteFile(tmp, []byte(strconv.Itoa(os.Getpid())), 0o644) == nil {
			os.Rename(tmp, cfg.StartedFile)
		}
	}
	if cfg.EnvDumpTo != "" {
		envDump(cfg.EnvDumpTo)
	}
	core.Extra = extraOps
	if cfg.Ctl != "" {
		startCtl(cfg.Ctl)
	}
	switch cfg.Mode {
	case "raw", "envdump":
		raw()
	case "impostor":
		impostor()
	}

	if cfg.EarlyStderrMs > 0 {
		realErr := os.Stderr // Serve replaces os.Stderr later: keep writing to the process' own stderr
		go func() {
			t0 := time.Now()
			for i := 0; time.Since(t0) < time.Duration(cfg.EarlyStderrMs)*time.Millisecond; i++ {
				fmt.Fprintf(realErr, "start-up log line %d\n", i)
				time.Sleep(200 * time.Microsecond)
			}
		}()
	}
	var once, chatterOnce sync.Once
	vp.InstallEnvHook(func(name string, id uint32) {
		if name == "serve.lineWritten" && cfg.ChatterAfterMs > 0 {
			// plugin code that prints to os.Stdout on its own, starting some time after the handshake line
			// went out, whether or not a host has connected by then
			chatterOnce.Do(func() {
				go func() {
					time.Sleep(time.Duration(cfg.ChatterAfterMs) * time.Millisecond)
					for i := 0; i < 200; i++ {
						fmt.Fprintf(os.Stdout, "plugin-chatter %d\n", i)
						time.Sleep(10 * time.Millisecond)
					}
				}()
			})
		}
		if name == "serve.serving" && cfg.PreWrite != nil {
			once.Do(func() { go doWrites(cfg.PreWrite) })
		}
	})

	names := cfg.Names
	if len(names) == 0 {
		names = []string{"kv"}
	}
	sc := &plugin.ServeConfig{
		HandshakeConfig: plugin.HandshakeConfig{MagicCookieKey: spec.CookieKey, MagicCookieValue: spec.CookieValue},
	}
	if cfg.CookieKey != nil {
		sc.MagicCookieKey = *cfg.CookieKey
	}
	if cfg.CookieValue != nil {
		sc.MagicCookieValue = *cfg.CookieValue
	}
	anyGRPC := false
	if len(cfg.Versioned) > 0 {
		sc.VersionedPlugins = map[int]plugin.PluginSet{}
		for vs, proto := range cfg.Versioned {
			v, _ := strconv.Atoi(vs)
			sc.VersionedPlugins[v] = vp.Set(proto, v, names, core)
			anyGRPC = anyGRPC || proto == "grpc"
		}
	}
	if cfg.Legacy != nil {
		sc.ProtocolVersion = uint(cfg.Legacy.Version)
		sc.Plugins = vp.Set(cfg.Legacy.Proto, cfg.Legacy.Version, names, core)
		anyGRPC = anyGRPC || cfg.Legacy.Proto == "grpc"
	}
	if (cfg.GRPCServer == nil && anyGRPC) || (cfg.GRPCServer != nil && *cfg.GRPCServer) {
		sc.GRPCServer = plugin.DefaultGRPCServer
	}
	if cfg.TLSCert != "" {
		sc.TLSProvider = func() (*tls.Config, error) {
			cp, _ := os.ReadFile(cfg.TLSCert)
			kp, _ := os.ReadFile(cfg.TLSKey)
			c, err := tls.X509KeyPair(cp, kp)
			if err != nil {
				return nil, err
			}
			tc := &tls.Config{Certificates: []tls.Certificate{c}, MinVersion: tls.VersionTLS12}
			if cfg.TLSRootCA != "" {
				ca, _ := os.ReadFile(cfg.TLSRootCA)
				tc.RootCAs = vp.PoolOf(ca)
				tc.ServerName = "localhost"
			}
			if cfg.TLSClientCA != "" {
				ca, _ := os.ReadFile(cfg.TLSClientCA)
				tc.ClientCAs = vp.PoolOf(ca)
				tc.ClientAuth = tls.RequireAndVerifyClientCert
			}
			return tc, nil
		}
	}
	lvl := hclog.LevelFromString(cfg.LogLevel)
	if cfg.LogLevel == "" {
		lvl = hclog.Level(99)
	}
	sc.Logger = hclog.New(&hclog.LoggerOptions{Level: lvl, Output: os.Stderr, JSONFormat: true})

	if cfg.PreTestServe {
		// a process that served in test mode before (a self-check, a unit-test style run) and then
		// serves for real: what the test-mode run did must not carry over
		ctx, cancel := context.WithCancel(context.Background())
		rch := make(chan *plugin.ReattachConfig, 1)
		closeCh := make(chan struct{})
		tc := *sc
		tc.Test = &plugin.ServeTestConfig{Context: ctx, ReattachConfigCh: rch, CloseCh: closeCh, SyncStdio: cfg.PreTestSync}
		go plugin.Serve(&tc)
		select {
		case <-rch:
		case <-time.After(10 * time.Second):
		}
		cancel()
		select {
		case <-closeCh:
		case <-time.After(10 * time.Second):
		}
	}
	plugin.Serve(sc)

	// Serve returned: the host asked us to shut down (or serving failed).
	if vp.StormStarted.Load() {
		// the accept worker carries on for a moment, is stopped, and its last calls get time to unwind
		time.Sleep(200 * time.Millisecond)
		vp.StormStop.Store(true)
		time.Sleep(300 * time.Millisecond)
	}
	if cfg.ShutdownChatMs > 0 {
		go func() {
			for i := 0; ; i++ {
				fmt.Fprintf(origErr, "[INFO] still flushing, attempt %d\n", i)
				time.Sleep(time.Duration(cfg.ShutdownChatMs) * time.Millisecond)
			}
		}()
	}
	if cfg.NeverExit {
		select {}
	}
	if cfg.ExitDelayMs > 0 {
		time.Sleep(time.Duration(cfg.ExitDelayMs) * time.Millisecond)
	}
	if cfg.Marker != "" {
		os.WriteFile(cfg.Marker, []byte("clean\n"), 0o644)
	}
	os.Exit(0)
}

// ---------------------------------------------------------------- side channel

func startCtl(path string) {
	os.Remove(path)
	ln, err := net.Listen("unix", path)
	if err != nil {
		fmt.Fprintln(origErr, "vplugin: ctl:", err)
		os.Exit(65)
	}
	go func() {
		for {
			c, err := ln.Accept()
			if err != nil {
				return
			}
			go func(c net.Conn) {
				defer c.Close()
				r := bufio.NewReaderSize(c, 1<<20)
				for {
					line, err := r.ReadString('\n')
					if err != nil {
						return
					}
					res, err := core.Do(context.Background(), vpIdent(), strings.TrimSpace(line))
					out := map[string]any{"res": json.RawMessage("null")}
					if err != nil {
						out["err"] = err.Error()
					} else if res != "" {
						out["res"] = json.RawMessage(res)
					}
					b, _ := json.Marshal(out)
					c.Write(append(b, '\n'))
				}
			}(c)
		}
	}()
}

// ---------------------------------------------------------------- ops

func stream(s string) *os.File {
	if s == "e" {
		return os.Stderr
	}
	return os.Stdout
}

var (
	seqMu sync.Mutex
	seqs  = map[byte]uint32{}
	wrote = map[byte]int64{}
	// streamWriteMu: see doWrites
	streamWriteMu [256]sync.Mutex
)

// doWrites issues the plan: the two streams from two goroutines, each stream's
// frames in plan order. Each frame goes out as a single Write call.
func doWrites(p *WritePlan) map[string]any {
	var wg sync.WaitGroup
	for _, tag := range []byte{'O', 'E'} {
		wg.Add(1)
		go func(tag byte) {
			defer wg.Done()
			s := "o"
			if tag == 'E' {
				s = "e"
			}
			for _, f := range p.Frames {
				if f.Stream != s {
					continue
				}
				if f.GapUs > 0 {
					time.Sleep(time.Duration(f.GapUs) * time.Microsecond)
				}
				// one writer per stream at a time: the sequence number is taken and the frame written under the
				// stream's own lock, so that a plan that starts while an earlier one is still blocked in a
				// large write cannot put a later-numbered frame in front of it
				wmu := &streamWriteMu[tag]
				wmu.Lock()
				seqMu.Lock()
				seq := seqs[tag]
				seqs[tag]++
				seqMu.Unlock()
				b := spec.FrameBytes(p.Seed, tag, seq, f.Len)
				n, _ := stream(s).Write(b)
				wmu.Unlock()
				seqMu.Lock()
				wrote[tag] += int64(n)
				seqMu.Unlock()
			}
		}(tag)
	}
	wg.Wait()
	seqMu.Lock()
	res := map[string]any{"o": wrote['O'], "e": wrote['E'], "oframes": seqs['O'], "eframes": seqs['E']}
	seqMu.Unlock()
	if p.Ack != "" {
		b, _ := json.Marshal(res)
		os.WriteFile(p.Ack, b, 0o644)
	}
	return res
}

func extraOps(ctx context.Context, op string, a vp.M) (any, error, bool) {
	switch op {
	case "write":
		var p WritePlan
		b, _ := json.Marshal(a["plan"])
		if err := json.Unmarshal(b, &p); err != nil {
			return nil, err, true
		}
		return doWrites(&p), nil, true
	case "written":
		seqMu.Lock()
		defer seqMu.Unlock()
		return map[string]any{"o": wrote['O'], "e": wrote['E'], "oframes": seqs['O'], "eframes": seqs['E']}, nil, true
	case "rawwrite":
		// write bytes to the process' real stdout/stderr (saved before Serve)
		data, err := base64.StdEncoding.DecodeString(vp.Str(a, "b64"))
		if err != nil {
			return nil, err, true
		}
		f := origOut
		if vp.Str(a, "stream") == "e" {
			f = origErr
		}
		n, err := f.Write(data)
		return map[string]any{"n": n}, err, true
	case "env":
		return map[string]any{"env": os.Environ()}, nil, true
	}
	return nil, nil, false
}

// ---------------------------------------------------------------- raw modes

func raw() {
	if cfg.DelayMs > 0 {
		time.Sleep(time.Duration(cfg.DelayMs) * time.Millisecond)
	}
	if cfg.StderrHex != "" {
		b, _ := hex.DecodeString(cfg.StderrHex)
		os.Stderr.Write(b)
	}
	if cfg.LineHex != "" {
		b, _ := hex.DecodeString(cfg.LineHex)
		os.Stdout.Write(b)
	}
	switch cfg.After {
	case "hang":
		select {}
	case "closeStdout":
		os.Stdout.Close()
		select {}
	default:
		if cfg.ExitAfterMs > 0 {
			time.Sleep(time.Duration(cfg.ExitAfterMs) * time.Millisecond)
		}
		os.Exit(cfg.ExitCode)
	}
}

func envDump(path string) {
	var st syscall.Stat_t
	syscall.Fstat(0, &st)
	env := os.Environ()
	sort.Strings(env)
	b, _ := json.Marshal(map[string]any{"env": env, "stdinDev": st.Dev, "stdinIno": st.Ino, "args": os.Args})
	os.WriteFile(path, b, 0o644)
}

func vpIdent() vp.Ident { return vp.Ident{Name: "ctl", Label: "side-channel"} }
