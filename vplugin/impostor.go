package main

import (
	"bytes"
	"crypto/tls"
	"encoding/base64"
	"fmt"
	"net"
	"os"
	"path/filepath"

	plugin "github.com/hashicorp/go-plugin"
	"google.golang.org/grpc"
	"google.golang.org/grpc/credentials"
	"google.golang.org/grpc/health"
	"google.golang.org/grpc/health/grpc_health_v1"
	"verif/vp"
)

// impostor announces certificate A in a perfectly valid handshake line but
// serves with certificate B (or in plaintext). It never calls plugin.Serve for
// the main listener; it serves the real protocol so that a host that failed to
// verify the peer WOULD get an answer.
func impostor() {
	_, _, derA := vp.GenCert()
	certB, keyB, derB := vp.GenCert()
	if cfg.ImpServeFrom != "" {
		cb, err1 := os.ReadFile(filepath.Join(cfg.ImpServeFrom, "cert.pem"))
		kb, err2 := os.ReadFile(filepath.Join(cfg.ImpServeFrom, "key.pem"))
		if err1 != nil || err2 != nil {
			fmt.Fprintln(os.Stderr, "impostor: cannot load saved identity", err1, err2)
			os.Exit(71)
		}
		certB, keyB = cb, kb
	}
	if cfg.ImpSaveTo != "" {
		os.WriteFile(filepath.Join(cfg.ImpSaveTo, "cert.pem"), certB, 0o600)
		os.WriteFile(filepath.Join(cfg.ImpSaveTo, "key.pem"), keyB, 0o600)
	}
	if cfg.ImpAnnounceServed {
		derA = derB
	}
	dir := os.Getenv("TMPDIR")
	sock := filepath.Join(dir, "impostor.sock")
	os.Remove(sock)
	ln, err := net.Listen("unix", sock)
	if err != nil {
		fmt.Fprintln(os.Stderr, "impostor:", err)
		os.Exit(70)
	}
	tc := &tls.Config{Certificates: []tls.Certificate{vp.KeyPair(certB, keyB)}, MinVersion: tls.VersionTLS12}
	// all impostor processes belong to one party: they share their session-ticket key, so a session that a
	// host set up with one of them can be offered for resumption to another
	var ticketKey [32]byte
	copy(ticketKey[:], "verif impostor shared ticket key")
	tc.SetSessionTicketKeys([][32]byte{ticketKey})
	switch cfg.ImpChain {
	case "ipsan", "localhost":
		// the announced certificate is public: the impostor appends it behind its own leaf. "ipsan": the
		// announced certificate does not carry the name the host dials with
		if cfg.ImpChain == "ipsan" {
			_, _, derA = vp.GenCertIPOnly()
		}
		kp := vp.KeyPair(certB, keyB)
		kp.Certificate = append(kp.Certificate, derA)
		tc.Certificates = []tls.Certificate{kp}
	}
	proto := cfg.ImpostorOf
	switch proto {
	case "grpc":
		var opts []grpc.ServerOption
		if !cfg.Plaintext {
			opts = append(opts, grpc.Creds(credentials.NewTLS(tc)))
		}
		s := grpc.NewServer(opts...)
		hs := health.NewServer()
		hs.SetServingStatus(plugin.GRPCServiceName, grpc_health_v1.HealthCheckResponse_SERVING)
		grpc_health_v1.RegisterHealthServer(s, hs)
		go s.Serve(ln)
	default:
		proto = "netrpc"
		var l net.Listener = ln
		if !cfg.Plaintext {
			l = tls.NewListener(ln, tc)
		}
		srv := &plugin.RPCServer{Plugins: vp.Set("netrpc", 1, []string{"kv"}, core), Stdout: bytes.NewReader(nil), Stderr: bytes.NewReader(nil), DoneCh: make(chan struct{})}
		go srv.Serve(l)
	}
	line := fmt.Sprintf("1|1|unix|%s|%s|%s", sock, proto, base64.RawStdEncoding.EncodeToString(derA))
	switch cfg.ImpAnnounce {
	case "none":
		line = fmt.Sprintf("1|1|unix|%s|%s", sock, proto)
	case "short":
		line = fmt.Sprintf("1|1|unix|%s|%s|abc", sock, proto)
	}
	if os.Getenv("PLUGIN_MULTIPLEX_GRPC") != "" {
		if cfg.ImpAnnounce == "none" {
			line += "|"
		}
		line += "|true"
	}
	fmt.Println(line)
	select {}
}
