package main

import "os"

// impostor is filled in by the C12 workload (see impostor_impl.go).
var impostorImpl func()

func impostor() {
	if impostorImpl != nil {
		impostorImpl()
	}
	os.Exit(66)
}
