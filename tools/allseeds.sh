#!/bin/sh
# Runs every seeded change against its property's check (serially; modifies /repo's working tree while running).
V="$(cd "$(dirname "$0")/.." && pwd)"
cd "$V"
for d in seeded/*/; do
  n=$(basename $d); id=$(echo $n | cut -c1-3)
  printf "%s: " "$n"
  tools/mutant.sh "$V"/$d/patch.diff $id ${1:-quick} 2>&1 | grep -E "^C[0-9][0-9] tier|exit=|cannot" | tr '\n' ' ' | cut -c1-200
  echo
done
