#!/usr/bin/env python3
"""Regenerates /verif/MANIFEST.json from the table below."""
import json, subprocess
ALL = ["C%02d" % i for i in range(1, 21)]
hooks_commits = subprocess.run(["git", "-C", "/repo", "log", "--format=%H", "--grep=^verif:"], capture_output=True, text=True).stdout.split()

CHECKS = {
 "C01": dict(
   category="exploration",
   text="Runtime monitor: the real Client.Start is driven with ~1.1k (quick) / ~30k (thorough) generated first-stdout-lines x client configurations through a scripted in-process runner (and a sample through a real subprocess) under the race detector; an independent reference parser written from the statement decides, per case, whether acceptance was allowed and whether the reported protocol/version/address equal the line; nil / typed-nil addresses, panics and Start calls outliving the hang threshold are violations. Held = held on the executions listed in the evidence, not a proof over all byte strings.",
   design_ref="DESIGN.md section 3, C01",
   note="Trusts: Go stdlib (strconv, net.Resolve*Addr, x509) inside the reference parser; the scripted runner as a faithful stand-in for a process' stdout pipe (cross-checked by the real-subprocess sample); hang threshold H=max(4*StartTimeout, StartTimeout+15s).",
   technique="runtime monitoring: reference-parser oracle over generated handshake lines, race detector on"),
}
PENDING_REASON = "check not built yet in this revision; it is planned as a runtime monitor (see DESIGN.md section 3) and will move to 'checks' when it exists"

m = {
 "version": 1,
 "setup_cmd": "cd /verif && export GOFLAGS=-mod=mod GOPROXY=off && mkdir -p bin && go build -o bin/vcheck ./cmd/vcheck && go test -c -vet=off -tags verif -race -o .build/vhost-race ./host && go build -tags verif -race -o .build/vplugin-race ./vplugin",
 "hooks": {
   "guard": "verif",
   "enable": "go build/test -tags verif (the harness module /verif replaces github.com/hashicorp/go-plugin with /repo); handlers are installed through plugin.VerifSetHook",
   "baseline_off_cmd": "cd /repo && GOFLAGS=-mod=mod GOPROXY=off go test -json -vet=off -count=1 -timeout 25m ./...",
   "source_commits": hooks_commits,
   "add_only": True,
 },
 "engines": [
   {"name": "vcheck", "path": "/verif/cmd/vcheck", "serves_properties": sorted(CHECKS), "kind_free_text": "driver + oracles: generates seeded cases, runs host workloads in watched child processes (race detector on), judges recorded event logs with reference models that do not link go-plugin"},
   {"name": "vhost", "path": "/verif/host", "serves_properties": sorted(CHECKS), "kind_free_text": "go test binary with host-side workloads, records call/return events at the public API boundary"},
   {"name": "vplugin", "path": "/verif/vplugin", "serves_properties": sorted(CHECKS), "kind_free_text": "scripted real plugin (plugin.Serve) steered by config file and side channel"},
 ],
 "checks": [],
 "not_applicable": [],
 "notes": "Technique family: runtime monitoring and sanitizers only. Every check rebuilds vhost/vplugin from /repo's working tree with -tags verif -race. Exit 0 = held on what was explored; exit 1 + VIOLATION line; exit 2 = inconclusive (build failure / too little observed). Known findings: /verif/known_findings.json.",
}
for pid in ALL:
    if pid in CHECKS:
        c = CHECKS[pid]
        m["checks"].append({
          "property_id": pid,
          "quick_cmd": "./run.sh %s quick" % pid,
          "thorough_cmd": "./run.sh %s thorough" % pid,
          "evidence_file": "/verif/evidence/%s.json" % pid,
          "replay_cmd_template": "./run.sh %s quick --replay {path}" % pid,
          "engine": "vcheck",
          "level_claimed": {"category": c["category"], "text": c["text"], "design_ref": c["design_ref"]},
          "level_note": c["note"],
          "technique": c["technique"],
        })
    else:
        m["not_applicable"].append({"property_id": pid, "reason": PENDING_REASON})
json.dump(m, open("/verif/MANIFEST.json", "w"), indent=1)
print("checks:", len(m["checks"]), "pending:", len(m["not_applicable"]))
