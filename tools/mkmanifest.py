#!/usr/bin/env python3
"""Regenerates /verif/MANIFEST.json from the table below."""
import json, subprocess
ALL = ["C%02d" % i for i in range(1, 21)]
hooks_commits = subprocess.run(["git", "-C", "/repo", "log", "--format=%H", "--grep=^verif:"], capture_output=True, text=True).stdout.split()

CHECKS = {
 "C01": dict(
   category="exploration",
   text="Runtime monitor: the real Client.Start is driven with ~1.1k (quick) / ~30k (thorough) generated first-stdout-lines x client configurations through a scripted in-process runner (and a sample through a real subprocess) under the race detector; an independent reference parser written from the statement decides, per case, whether acceptance was allowed and whether the reported protocol/version/address equal the line; nil / typed-nil addresses, panics and Start calls outliving the hang threshold are violations. Held = held on the executions listed in the evidence, not a proof over all byte strings.",
   design_ref="DESIGN.md section 3, C01",
   note="Trusts: Go stdlib (strconv, net.Resolve*Addr, x509) inside the reference parser; the scripted runner as a faithful stand-in for a process' stdout pipe (cross-checked by the real-subprocess sample); hang threshold H=max(4*StartTimeout, StartTimeout+15s).",
   technique="runtime monitoring: reference-parser oracle over generated handshake lines, race detector on"),
 "C10": dict(
   category="exploration",
   text="Runtime monitor: ~950 (quick) / ~16k (thorough) stderr byte sequences and stdout volumes are written by a scripted in-process plugin through unbuffered pipes into the real Client; the copy delivered to ClientConfig.Stderr and the exact log records (captured with an hclog intercept sink) are compared with a reference line/record model written from the statement; a writer still blocked after the watchdog, a host death, a copy or record mismatch is a violation.",
   design_ref="DESIGN.md section 3, C10",
   note="Trusts encoding/json in the reference model; in-process io.Pipe stands in for the OS pipes (no 64 KiB kernel buffer: stricter on back-pressure). Lenient classes (ill-typed JSON, lines longer than the buffer) are listed in the evidence assumptions.",
   technique="runtime monitoring: reference log-record model over generated stderr/stdout byte streams, race detector on"),
 "C17": dict(
   category="exploration",
   text="Runtime monitor: for 96 configuration x 6 ambient-environment combinations per launch method the environment handed to a custom runner and the environment actually received by a real child (plus its stdin identity) are captured and compared, variable by variable, with what the client configuration determines; end-to-end cases launch a real serving plugin from a host that carries PLUGIN_* variables and require the configured mode to work.",
   design_ref="DESIGN.md section 3, C17",
   note="Effective environment computed as os/exec does (last duplicate wins); empty value = absent; host child's stdin is a distinctive regular file so that stdin pass-through is observable.",
   technique="runtime monitoring: environment capture at the runner boundary and in a real child, set-comparison oracle"),
 "C19": dict(
   category="exploration",
   text="Runtime monitor: ~360 (quick) / ~8k (thorough) sequential and concurrent programs over Start/Client/Protocol/ReattachConfig/ID/Exited/Kill are run against one Client per program (scripted runner with a live in-process server, failing starts, real processes) under the race detector; oracles are launch counters, identity of returned addresses/clients, a porcupine linearizability check of each recorded call/return history against a sequential life-cycle model, and race reports attributed to go-plugin by accessing frame.",
   design_ref="DESIGN.md section 3, C19",
   note="Trusts porcupine v1.3.0 and the Go race detector; the life-cycle model leaves ID/Exited unconstrained while a Kill may be in flight.",
   technique="runtime monitoring: recorded-history linearizability (porcupine) + launch counters + Go race detector"),
}
PENDING_REASON = "check not built yet in this revision; it is planned as a runtime monitor (see DESIGN.md section 3) and will move to 'checks' when it exists"

m = {
 "version": 1,
 "setup_cmd": "cd /verif && export GOFLAGS=-mod=mod GOPROXY=off && mkdir -p bin && go build -o bin/vcheck ./cmd/vcheck && go test -c -vet=off -tags verif -race -o .build/vhost-race ./host && go build -tags verif -race -o .build/vplugin-race ./vplugin",
 "hooks": {
   "guard": "verif",
   "enable": "go build/test -tags verif (the harness module /verif replaces github.com/hashicorp/go-plugin with /repo); handlers are installed through plugin.VerifSetHook",
   "baseline_off_cmd": "cd /repo && GOFLAGS=-mod=mod GOPROXY=off go test -json -vet=off -count=1 -timeout 25m ./...",
   "source_commits": hooks_commits,
   "add_only": True,
 },
 "engines": [
   {"name": "vcheck", "path": "/verif/cmd/vcheck", "serves_properties": sorted(CHECKS), "kind_free_text": "driver + oracles: generates seeded cases, runs host workloads in watched child processes (race detector on), judges recorded event logs with reference models that do not link go-plugin"},
   {"name": "vhost", "path": "/verif/host", "serves_properties": sorted(CHECKS), "kind_free_text": "go test binary with host-side workloads, records call/return events at the public API boundary"},
   {"name": "vplugin", "path": "/verif/vplugin", "serves_properties": sorted(CHECKS), "kind_free_text": "scripted real plugin (plugin.Serve) steered by config file and side channel"},
 ],
 "checks": [],
 "not_applicable": [],
 "notes": "Technique family: runtime monitoring and sanitizers only. Every check rebuilds vhost/vplugin from /repo's working tree with -tags verif -race. Exit 0 = held on what was explored; exit 1 + VIOLATION line; exit 2 = inconclusive (build failure / too little observed). Known findings: /verif/known_findings.json.",
}
for pid in ALL:
    if pid in CHECKS:
        c = CHECKS[pid]
        m["checks"].append({
          "property_id": pid,
          "quick_cmd": "./run.sh %s quick" % pid,
          "thorough_cmd": "./run.sh %s thorough" % pid,
          "evidence_file": "/verif/evidence/%s.json" % pid,
          "replay_cmd_template": "./run.sh %s quick --replay {path}" % pid,
          "engine": "vcheck",
          "level_claimed": {"category": c["category"], "text": c["text"], "design_ref": c["design_ref"]},
          "level_note": c["note"],
          "technique": c["technique"],
        })
    else:
        m["not_applicable"].append({"property_id": pid, "reason": PENDING_REASON})
json.dump(m, open("/verif/MANIFEST.json", "w"), indent=1)
print("checks:", len(m["checks"]), "pending:", len(m["not_applicable"]))
