#!/usr/bin/env python3
"""Regenerates /verif/MANIFEST.json from the table below."""
import json, subprocess
ALL = ["C%02d" % i for i in range(1, 21)]
hooks_commits = subprocess.run(["git", "-C", "/repo", "log", "--format=%H", "--grep=^verif:"], capture_output=True, text=True).stdout.split()

CHECKS = {
 "C01": dict(
   category="exploration",
   text="Runtime monitor: the real Client.Start is driven with ~2.5k (quick) / ~114k (thorough) generated first-stdout-lines x client configurations (per-field pools, wrappers, truncations, byte mutations, and the full cross product of protocol x certificate x multiplexing field values for every configuration, lines with more than seven fields whose trailing field contradicts the multiplexing field) through a scripted in-process runner (and a sample through a real subprocess) under the race detector; an independent reference parser written from the statement decides, per case, whether acceptance was allowed and whether the reported protocol/version/address (also from a second Start and from ReattachConfig) equal the line; nil / typed-nil addresses, panics and Start calls outliving the hang threshold are violations. Held = held on the executions listed in the evidence, not a proof over all byte strings.",
   design_ref="DESIGN.md section 3, C01",
   note="Trusts: Go stdlib (strconv, net.Resolve*Addr, x509) inside the reference parser; the scripted runner as a faithful stand-in for a process' stdout pipe (cross-checked by the real-subprocess sample); hang threshold H=max(4*StartTimeout, StartTimeout+15s).",
   technique="runtime monitoring: reference-parser oracle over generated handshake lines, race detector on"),
 "C10": dict(
   category="exploration",
   text="Runtime monitor: ~1k (quick) / ~16k (thorough) stderr byte sequences and stdout volumes (over-long ASCII, multi-byte UTF-8 and binary lines) are written by a scripted in-process plugin through unbuffered pipes into the real Client; the copy delivered to ClientConfig.Stderr and the exact log records (captured with an hclog intercept sink) are compared with a reference line/record model written from the statement; a writer still blocked after the watchdog, a host death, a copy or record mismatch is a violation.",
   design_ref="DESIGN.md section 3, C10",
   note="Trusts encoding/json in the reference model; in-process io.Pipe stands in for the OS pipes (no 64 KiB kernel buffer: stricter on back-pressure). Lenient classes (ill-typed JSON, lines longer than the buffer) are listed in the evidence assumptions.",
   technique="runtime monitoring: reference log-record model over generated stderr/stdout byte streams, race detector on"),
 "C17": dict(
   category="exploration",
   text="Runtime monitor: for 96 configuration x 6 ambient-environment combinations per launch method, plus user Cmd.Env entries that collide with the control variables or are a copy of the host's whole environment, the environment handed to a custom runner and the environment actually received by a real child (plus its stdin identity) are captured and compared, variable by variable, with what the client configuration determines; rounds with two clients built from one ClientConfig through a RunnerFunc and alive together check that each has a socket directory of its own (announced in its environment, removed by its own Kill only), and -- started at the same time, with a runner that keeps the environment slice it was handed and launches from it later -- still finds its own variables there; end-to-end cases launch a real serving plugin from a host that carries PLUGIN_* variables and require the configured mode to work.",
   design_ref="DESIGN.md section 3, C17",
   note="Effective environment computed as os/exec does (last duplicate wins); empty value = absent; host child's stdin is a distinctive regular file so that stdin pass-through is observable.",
   technique="runtime monitoring: environment capture at the runner boundary and in a real child, set-comparison oracle"),
 "C19": dict(
   category="exploration",
   text="Runtime monitor: ~360 (quick) / ~8k (thorough) sequential and concurrent programs over Start/Client/Protocol/ReattachConfig/ID/Exited/Kill are run against one Client per program (scripted runner with a live in-process server, failing starts, a start that succeeds with nothing listening, one where the listener only comes up later, real processes) under the race detector; oracles are launch counters, identity of returned addresses/clients, a porcupine linearizability check of each recorded call/return history against a sequential life-cycle model, and race reports attributed to go-plugin by accessing frame.",
   design_ref="DESIGN.md section 3, C19",
   note="Trusts porcupine v1.3.0 and the Go race detector; the life-cycle model leaves ID/Exited unconstrained while a Kill may be in flight.",
   technique="runtime monitoring: recorded-history linearizability (porcupine) + launch counters + Go race detector"),
 "C05": dict(
   category="fault_enumeration",
   text="Fault enumeration by runtime monitor: 20 named ways a Start can fail after launch (plus start timeouts of 1 ns - 3 ms that expire during the launch itself) x 6 launch methods (incl. a custom runner whose stdout reader breaks) (real process via Cmd, custom runner around a real process, the same with a Kill that honours its context without / with a grace period and the failure placed late in the start window, scripted in-process runner); the monitor reads the launched pid's /proc state at Start-return and while polling 5 s, counts runner Kill calls, times a later Kill, checks reaping and the temp socket directory.",
   design_ref="DESIGN.md section 3, C05",
   note="'shortly after' = 5 s; causes are only those every reading of C01 rejects; thorough repeats each cause 10x with seeded output delays.",
   technique="runtime monitoring: /proc process-state monitor over enumerated start-failure causes"),
 "C06": dict(
   category="exploration",
   text="Runtime monitor: rounds of 1-64 concurrently outstanding distinct ids on a real in-process net/rpc plugin connection (both directions, accept-first/dial-first, gaps inside the window, ids around the uint32 wrap, an Accept held (hook point) between pick-up and acknowledgement across the expiry instant of the parked dial, pairs on ids that were used before and straddle the earlier dial's 5 s mark, one-way transfers whose reader starts 6 s after the sender closed, 1 MiB payloads on connections that have been open for 6.5 s, concurrent Dispense traffic incl. dispenses whose reserved id crosses the wrap and dispenses of a plugin whose Server() fails, seeded jitter at the mux hook points, race detector on); each end records the unique token and PRNG payload it read; the offline oracle checks the dial(id)<->accept(id) bijection, byte-exact payloads, no failure inside the window, and that every Dispense reaches a distinct server object of the requested name.",
   design_ref="DESIGN.md section 3, C06",
   note="Both ends in one process via plugin.TestPluginRPCConn; gaps kept >= 1 s inside the 5 s window.",
   technique="runtime monitoring: unique-token routing oracle over recorded accept/dial events, hook-point jitter, race detector"),
 "C07": dict(
   category="exploration",
   text="Runtime monitor: rounds of 1-32 concurrently outstanding ids on a real in-process gRPC connection without multiplexing, both directions and orders, in-process and against real subprocesses behind custom runners that translate addresses (other path spelling; unix socket reached through a TCP forwarder, i.e. another network kind) with call counters on the translator; pairs on ids that were dialled once in vain before; pairs in the callback shape (the id number used in the other direction first, the dialling side's own listener of that number closed between accept and dial); every accepted id serves a PingPong service answering '<id>/<nonce>', the dialler's first call must be answered by its own id's server; jitter at the grpcbroker hook points; race detector on.",
   design_ref="DESIGN.md section 3, C07",
   note="In-process pair via plugin.TestPluginGRPCConn (no TLS); TLS and address-translation paths are exercised through real subprocesses by other checks.",
   technique="runtime monitoring: id/nonce echo oracle over brokered gRPC connections, hook-point jitter, race detector"),
 "C08": dict(
   category="exploration",
   text="Runtime monitor: sequences of 20-50 (quick) / up to 200 (thorough) brokered connections established one at a time on a multiplexed in-process gRPC pair; per-side id counters (the same number is live in both directions), accept-first and dial-first, second connections to still-open listeners, slow server factories, an establishment whose retrying dialler is accepted between its timed-out knock and gRPC's reconnect, listeners that are closed (once or twice) and whose id is accepted again at once, a dial with a 300 ms connect timeout accepted 1 s later, a listener that is closed at the moment the stream of a dial for it arrives (hook point, a host child of its own; that dial is not judged, every later pair is); after every establishment the control connection is pinged, the main service called and every earlier brokered connection re-pinged; seeded delays at the hook points between knock-listener start, listener registration, knock acceptance and stream acceptance.",
   design_ref="DESIGN.md section 3, C08",
   note="Concurrent establishment is documented as unsupported and never generated.",
   technique="runtime monitoring: id/nonce echo + health re-check oracle over sequential multiplexed establishments, schedule perturbation at hook points"),
 "C09": dict(
   category="exploration",
   text="Runtime monitor: histories of unmatched / duplicate / late / expiry-aligned broker operations (the expiry alignment is produced deterministically by blocking the expiry goroutine at a hook point) (incl. a second dial to an id whose waiting accept was already served -- also with the first pair's clean-up goroutine held at a hook point while the id is dialled, or accepted and dialled, again --, an id that is announced twice after a dial to it timed out, a close that follows the plugin's server going away while an AcceptAndServe is pending, a late accept whose ack arrives while another dial is waiting, a burst of 160 dials to ids nobody accepts, and -- kind muxraw -- an in-process RPCServer whose session peer opens streams and closes them after 0..3 header bytes, with genuine Dispense+dial pairs in between) on MuxBroker, GRPCBroker and multiplexed GRPCBroker, each followed by matched pairs on fresh ids in both directions and a close; oracle: every call returns (nominal 5 s, hang threshold 40 s), unmatched calls fail, fresh pairs succeed, a final close racing with listener announcements lets every call return, no goroutine with broker frames remains after all clients are closed. The defects it found (D5, D6 stale knock, D19 leaked knock listener, D22 used pending entry reused) are repaired; known_findings.json holds only fixed entries.",
   design_ref="DESIGN.md section 3, C09 and section 4 (D5, D6)",
   note="Bounded-progress reading of liveness; thresholds are generous so a loaded machine cannot manufacture alarms.",
   technique="runtime monitoring: bounded-progress oracle over fault histories with hook-controlled line-up, goroutine-dump leak monitor"),
 "C13": dict(
   category="exploration",
   text="Runtime monitor: ~620 (quick) / ~6k (thorough) (file, hash function, checksum) triples incl. every single-bit flip and every proper prefix of the digest (also for files whose digest ends in zero bytes); the target is a script that writes a launch marker as its first action; the oracle computes the digest independently and requires launched <=> checksum == H(file) and the corresponding error; plus histories of 2-4 launches of one path through one shared SecureConfig value with the file atomically replaced in between, and command paths through directory symlinks with '..', file symlinks, relative paths, a bare command name with a same-named file on PATH and an argv[0] that names another file (hashed file must be the executed file), and RunnerFunc clients with a SecureConfig (nothing may be launched).",
   design_ref="DESIGN.md section 3, C13",
   note="Digest computed with Go's crypto packages in the driver; launch observed through the marker file and exec.Cmd.Process.",
   technique="runtime monitoring: launch-marker oracle against an independently computed digest, exhaustive single-bit/prefix sub-spaces"),
 "C04": dict(
   category="exploration",
   text="Runtime monitor: real plugin subprocesses in nine shutdown behaviours (exit at once / after 200-1000 ms cleanup / after 1.2 s cleanup with a call that ignores cancellation in flight / never / busy / SIGSTOPped with state T awaited / already dead / failed handshake) x three protocols x four launch methods (incl. a custom runner whose Kill honours its context) x four call patterns (single, sequential, concurrent Kill, CleanupClients over mixed managed clients in a host process of their own, some of which had Kill called before their Start); after each Kill call returns the monitor reads /proc/<pid>/stat, Exited() and a cleanup-marker file written by the plugin after its cleanup; race detector on both processes.",
   design_ref="DESIGN.md section 3, C04",
   note="Bounded-time reading: Kill counts as hung after H=max(4N,N+15s); frozen net/rpc and mux plugins (bounded only by the 30+10 s yamux keep-alive) run in the thorough tier only; the not-force-killed clause is judged for non-concurrent patterns.",
   technique="runtime monitoring: /proc + cleanup-marker oracle over real subprocess shutdown behaviours, race detector"),
 "C02": dict(
   category="exploration",
   text="Runtime monitor: one real plugin subprocess per (host version set, plugin version set) pair over versions 0-4 (and over {2,9,10,11,100}: different digit counts, and {-3,-2,-1,0,2}: negative numbers) with versioned / legacy / mixed layouts and per-version wire protocols; every plugin set carries a version tag reported by the dispensed implementation and by the host-side wrapper; half the cases also run the plugin directly with a chosen PLUGIN_PROTOCOL_VERSIONS to read the raw announced line. Relaunch cases start a second plugin (other version sets) through the same ClientConfig object; overlap cases give the host a ProtocolVersion that also has its own VersionedPlugins entry while Plugins holds another version's set; handshake-only cases give it a handshake ProtocolVersion it registered nothing for. Oracle = set arithmetic (highest common version, lowest when no list, incompatible-version error + terminated process when disjoint). Thorough is exhaustive over all 31x31 subset pairs.",
   design_ref="DESIGN.md section 3, C02",
   note="Sets registered under one version use the same wire protocol on both sides; GRPCServer configured whenever a plugin-side set is gRPC.",
   technique="runtime monitoring: version-tag echo + raw handshake line capture, set-arithmetic oracle (exhaustive in thorough)"),
 "C03": dict(
   category="fault_enumeration",
   text="Fault enumeration by runtime monitor: named crash points (hook points inside go-plugin armed to SIGKILL / os.Exit, points in the scripted plugin, external SIGKILL while idle and at seeded instants under traffic, plugins that printed more lines with the handshake line and later exit by themselves, a host-side hook point that kills the plugin while a broker message sits between the host's stream goroutine and the wire, a SyncStdout pipe that the host drains only after Kill returned, a stream the plugin dialled that sits unaccepted in the host's broker) x three protocols x the host operation in flight, on real subprocesses; every in-flight and subsequent host call is recorded at the API boundary and must return within the hang threshold, with an error where it needed the plugin; Exited() and the gRPC client context are polled as bounded progress after the observed death; the host child must survive.",
   design_ref="DESIGN.md section 3, C03",
   note="Nominal bounds <= 6 s, hang threshold 24 s; a crash point that is never reached makes the case inconclusive.",
   technique="runtime monitoring: crash-point injection via hook points and signals, call/return log judged against a needs-the-plugin table"),
 "C11": dict(
   category="exploration",
   text="Runtime monitor: a real serving plugin (net/rpc, gRPC, gRPC+mux) writes self-describing frames ([stream tag][seq][len][PRNG payload]) to its stdout/stderr according to seeded plans (sizes around the 1 KiB / 4 KiB boundaries up to 1 MiB, two writer goroutines, optional RPC traffic, data written before the host attaches, more than pipe capacity, lone writes of exact buffer-multiple sizes followed by silence; for gRPC also a sync writer that refuses or half-accepts every third write, whose refused bytes must never reach the other stream); the host regenerates the expected streams and checks every 20 ms that what arrived on SyncStdout/SyncStderr is a prefix of them (no duplication, reordering, corruption, crossing) and, after the acknowledged last write, that everything arrives (bounded progress).",
   design_ref="DESIGN.md section 3, C11",
   note="Loss is judged 15 s after the plugin acknowledged its last write with the connection still answering Ping.",
   technique="runtime monitoring: prefix-of-regenerated-stream oracle over self-describing frames, race detector on both processes"),
 "C12": dict(
   category="exploration",
   text="Runtime monitor with hostile peers: for every connection path (main listeners of all three protocols incl. a race for the multiplexed listener's single session, plugin-side and host-side brokered gRPC listeners reached by their sockets and, with and without multiplexing, over the legitimate session through DialWithOptions with replaced transport credentials) intruders with five credential classes speak the real wire protocol and any answered RPC is a violation, while a positive control by the legitimate peer must succeed in the same case; plugins started directly with PLUGIN_CLIENT_CERT in eight unusual shapes are attacked the same way; a plugin with a TLSProvider of its own launched by an AutoMTLS host must either be unusable for that host or refuse the intruders; an impostor certificate at a brokered address must be refused also on gRPC's reconnects; with one ClientConfig used for two launches, a second plugin that announces a fresh certificate, none, or a three-character field and serves with the first launch's key must be refused; impostor plugins announce one certificate and serve another (or plaintext, or another leaf with the announced certificate appended to its chain) with the real protocol and any completed host RPC is a violation.",
   design_ref="DESIGN.md section 3, C12",
   note="Samples credential classes with fresh keys per case; cases without a successful positive control are inconclusive.",
   technique="runtime monitoring: intruder/impostor probes with positive controls against real AutoMTLS plugin processes"),
 "C16": dict(
   category="exploration",
   text="Runtime monitor in which the harness is the host: the plugin binary is executed directly over the cookie x configuration product and over 13 shapes of the host's version list, also in processes that served once in test mode before and with socket directories whose names contain special characters; raw stdout/stderr/exit status, the private sandbox listing, an immediate connect to the announced address, and strace's bind/listen/write order decide the property (no listener and status 1 without the cookie; exactly one well-formed line, nothing else on fd 1, listener ready before the line).",
   design_ref="DESIGN.md section 3, C16",
   note="Needs a working strace -f for the syscall-order and transient-listener observations (self-tested at run start; recorded in the evidence as strace_available).",
   technique="runtime monitoring: external process/syscall monitor (strace) plus raw stdio and file-system observation"),
 "C14": dict(
   category="exploration",
   text="Runtime monitor over the configuration cross product (576 cells + option conflicts + plugins that ignore PLUGIN_CLIENT_CERT + hosts that set AutoMTLS and a static TLSConfig together + raw-line plugins + cells with several versions per side and a wire protocol per version + short handshake lines without a protocol field against hosts that do not allow net/rpc; quick = seeded sample with every expectation kind, thorough = exhaustive): each cell launches a real plugin subprocess and records start error class, protocol in use, Ping, identity-tagged call, brokered callbacks in both directions (with the authentication the gRPC peer reports for each brokered connection: a protected configuration must not run them in clear), an 8 MiB response, 5 MiB responses on brokered connections, Dispense of an unknown name, process state after refusals, hangs and panics; a classification table written from the statement (MUST_WORK / MUST_FAIL_AT_START(kind) / MUST_NOT_WORK / EITHER_BUT_CLEAN) is the oracle.",
   design_ref="DESIGN.md section 3, C14",
   note="Documented-unsupported combinations (AutoMTLS+TLSProvider, AutoMTLS+reattach) are only required to be clean; static TLS is configured so that both sides can act as TLS server and client (brokered connections need both roles).",
   technique="runtime monitoring: classification-table oracle over the real configuration cross product (exhaustive in thorough)"),
 "C15": dict(
   category="exploration",
   text="Runtime monitor: seeded histories of reattach (first and second generation), put/get through any client, concurrent put/get through two clients, kill through any client, reattach-after-death (asked twice on the same client) and reattach after a test-mode server stopped (re-used config object, second-generation config), against real plugin processes and in-process test-mode servers; oracles: reference {alive,dead} state machine with a sequential store, instance-id equality, /proc state, errors.Is(ErrProcessNotFound), Exited() of every client of a killed plugin, CloseCh, and a porcupine per-key register linearizability check of the concurrent phase.",
   design_ref="DESIGN.md section 3, C15",
   note="Test-mode cases run in a host process of their own because the serving process is the host.",
   technique="runtime monitoring: reference state machine + porcupine register linearizability over recorded histories"),
 "C18": dict(
   category="exploration",
   text="Runtime monitor: seeded histories of dispenses / brokered connections in both directions / stdio / a brokered listener the plugin keeps open / plugin code announcing brokered servers from a background worker across the shutdown / a brokered id announced twice and never dialled / a host-side Accept nobody dials / the plugin killed while the host's multiplexed listener is between knock acknowledgement and hand-over, followed by Kill (optionally racing with listener announcements), plus in-process test-mode servers cancelled after no / one host used them, over protocol x TLS x launch method, real subprocesses with private sandboxes on both sides; after a graceful exit (cleanup marker present) the monitor lists both sandboxes for socket files and plugin-dir* directories and compares a goroutine dump of the host (filtered on go-plugin frames) with the count before the case, polling up to 10 s.",
   design_ref="DESIGN.md section 3, C18",
   note="One case at a time per host process so that goroutines are attributable; only graceful exits are judged.",
   technique="runtime monitoring: file-system listing + goroutine-dump leak monitor after graceful shutdown"),
 "C20": dict(
   category="exploration",
   text="Sanitizer + runtime monitor: concurrent rounds (4/16/64 goroutines) over in-process MuxBroker / GRPCBroker / multiplexed pairs and over one real Client with a race-built plugin process serving several dispensed implementations and brokered connections; a third of the rounds race Close / server Stop / concurrent Kill with in-flight operations; managed clients are created while CleanupClients runs; every other broker round starts with bursts of NextId calls across the uint32 wrap; every other client round uses AutoMTLS against a plugin logging to stderr from process start, the others have a second host reattached to the same plugin while the operations make it write to stdout/stderr; seeded jitter at every hook point. The Go race detector runs in both processes (reports attributed to go-plugin by accessing frame and de-duplicated by function pair), host deaths, recovered panics and plugin-side panic lines are violations, and the multiset of NextId results must be duplicate-free.",
   design_ref="DESIGN.md section 3, C20",
   note="A clean race-detector run covers only the accesses and schedules this workload produced (bounded per-location history). A round that does not finish is not a C20 violation (the statement excludes races, double closes, panics and duplicate ids, not hangs): such a case is inconclusive, with the goroutine dump in the evidence.",
   technique="sanitizer: Go race detector on host and plugin under a concurrent stress workload, plus panic and NextId-uniqueness monitors"),
}
PENDING_REASON = "check not built yet in this revision; it is planned as a runtime monitor (see DESIGN.md section 3) and will move to 'checks' when it exists"

m = {
 "version": 1,
 "setup_cmd": "cd /verif && export GOFLAGS=-mod=mod GOPROXY=off && mkdir -p bin && go build -o bin/vcheck ./cmd/vcheck && go test -c -vet=off -tags verif -race -o .build/vhost-race ./host && go build -tags verif -race -o .build/vplugin-race ./vplugin",
 "hooks": {
   "guard": "verif",
   "enable": "go build/test -tags verif (the harness module /verif replaces github.com/hashicorp/go-plugin with /repo); handlers are installed through plugin.VerifSetHook",
   "baseline_off_cmd": "cd /repo && GOFLAGS=-mod=mod GOPROXY=off go test -json -vet=off -count=1 -timeout 25m ./...",
   "source_commits": hooks_commits,
   "add_only": True,
 },
 "engines": [
   {"name": "vcheck", "path": "/verif/cmd/vcheck", "serves_properties": sorted(CHECKS), "kind_free_text": "driver + oracles: generates seeded cases, runs host workloads in watched child processes (race detector on), judges recorded event logs with reference models that do not link go-plugin"},
   {"name": "vhost", "path": "/verif/host", "serves_properties": sorted(CHECKS), "kind_free_text": "go test binary with host-side workloads, records call/return events at the public API boundary"},
   {"name": "vplugin", "path": "/verif/vplugin", "serves_properties": sorted(CHECKS), "kind_free_text": "scripted real plugin (plugin.Serve) steered by config file and side channel"},
 ],
 "checks": [],
 "not_applicable": [],
 "notes": "Technique family: runtime monitoring and sanitizers only. Every check rebuilds vhost/vplugin from /repo's working tree with -tags verif -race. Exit 0 = held on what was explored; exit 1 + VIOLATION line; exit 2 = inconclusive (build failure / too little observed). Known findings: /verif/known_findings.json.",
}
for pid in ALL:
    if pid in CHECKS:
        c = CHECKS[pid]
        m["checks"].append({
          "property_id": pid,
          "quick_cmd": "./run.sh %s quick" % pid,
          "thorough_cmd": "./run.sh %s thorough" % pid,
          "evidence_file": "/verif/evidence/%s.json" % pid,
          "replay_cmd_template": "./run.sh %s quick --replay {path}" % pid,
          "engine": "vcheck",
          "level_claimed": {"category": c["category"], "text": c["text"], "design_ref": c["design_ref"]},
          "level_note": c["note"],
          "technique": c["technique"],
        })
    else:
        m["not_applicable"].append({"property_id": pid, "reason": PENDING_REASON})
json.dump(m, open("/verif/MANIFEST.json", "w"), indent=1)
print("checks:", len(m["checks"]), "pending:", len(m["not_applicable"]))
