#!/bin/sh
# usage: tools/runall.sh [tier] [seed]  — runs every check registered in MANIFEST.json, one line per check
tier="${1:-quick}"; seed="${2:-1}"
cd /verif
for id in $(python3 -c "import json;print(' '.join(c['property_id'] for c in json.load(open('MANIFEST.json'))['checks']))"); do
  t0=$(date +%s)
  VERIF_SEED=$seed ./run.sh $id $tier > /tmp/runall_$id.out 2>&1; rc=$?
  t1=$(date +%s)
  echo "$id exit=$rc $((t1-t0))s $(grep -c '^VIOLATION' /tmp/runall_$id.out) violations, $(grep -c '^KNOWN' /tmp/runall_$id.out) known | $(tail -1 /tmp/runall_$id.out | cut -c1-160)"
done
