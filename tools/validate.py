#!/usr/bin/env python3
"""Validate MANIFEST.json and every evidence file against the given schemas."""
import json, sys, glob, os
try:
    import jsonschema
except ImportError:
    sys.path.insert(0, glob.glob('/opt/veriftools/pyvenv/lib/python*/site-packages')[0])
    import jsonschema
ok = True
m = json.load(open('/verif/MANIFEST.json'))
jsonschema.validate(m, json.load(open('/root/.vp/MANIFEST.schema.json')))
es = json.load(open('/root/.vp/EVIDENCE.schema.json'))
ids = [l and json.loads(l)['id'] for l in open('/verif/properties.jsonl') if l.strip()]
claimed = [c['property_id'] for c in m['checks']]
na = [n['property_id'] for n in m.get('not_applicable', [])]
for i in ids:
    if (i in claimed) == (i in na):
        print('property', i, 'claimed' if i in claimed else 'neither claimed nor not_applicable', 'and' if i in na else '')
        ok = ok and (i in claimed) != (i in na)
for c in m['checks']:
    f = c['evidence_file']
    if not os.path.exists(f):
        print('missing evidence', f); ok = False; continue
    try:
        e = json.load(open(f)); jsonschema.validate(e, es)
        if e['level'] != c['level_claimed']['category']:
            print('level mismatch', f); ok = False
        print(c['property_id'], 'evidence ok:', e['tier'], 'evals', e['coverage'].get('evaluations'), 'distinct', e['coverage'].get('distinct_nontrivial'), 'viol', e.get('violations'))
    except Exception as ex:
        print('invalid evidence', f, str(ex)[:300]); ok = False
print('OK' if ok else 'PROBLEMS')
sys.exit(0 if ok else 1)
