#!/bin/sh
# usage: tools/confirm_seed.sh <Cnn> <seed-name>: re-confirm a seeded change in its scratch worktree
id="$1"; name="$2"; wt=${WT:-/tmp/wt}/$id
export GOFLAGS=-mod=mod GOPROXY=off
cd $wt || exit 2
demo=$(ls zz_demo_*_test.go | head -1); tname=$(grep -o 'func TestDemo[A-Za-z0-9_]*' $demo | head -1 | sed 's/func //')
echo "== $name: demo=$demo test=$tname"
go build ./... || { echo "BUILD FAILS"; exit 1; }
go test -vet=off -count=1 -run "^$tname\$" . > /tmp/cs_with.txt 2>&1; w=$?
git diff > /tmp/cs_$id.patch; git checkout -- .; go test -vet=off -count=1 -run "^$tname\$" . > /tmp/cs_without.txt 2>&1; wo=$?; git apply /tmp/cs_$id.patch; rm -f /tmp/cs_$id.patch
echo "demo with change: exit $w (want != 0); without: exit $wo (want 0)"
mv $demo /tmp/$demo.aside
go test -vet=off -count=1 ./... 2>&1 | grep -E "^(--- FAIL|ok|FAIL)" | tr '\n' ' '; echo
mv /tmp/$demo.aside $demo
