#!/bin/sh
id="$1"; name="$2"; wt=/tmp/wt3/$id
mkdir -p /verif/seeded/$name
git -C $wt diff > /verif/seeded/$name/patch.diff
cp $wt/zz_demo_* /verif/seeded/$name/ 2>/dev/null
wc -l /verif/seeded/$name/patch.diff
