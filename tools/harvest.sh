#!/bin/sh
# usage: tools/harvest.sh <Cnn> <seed-name>   — copy a sub-agent's change out of /tmp/wt/<Cnn> into /verif/seeded/<seed-name>/
id="$1"; name="$2"; wt=/tmp/wt/$id
mkdir -p /verif/seeded/$name
git -C $wt diff > /verif/seeded/$name/patch.diff
cp $wt/zz_demo_* /verif/seeded/$name/ 2>/dev/null
ls -la /verif/seeded/$name; wc -l /verif/seeded/$name/patch.diff
