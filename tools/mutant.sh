#!/bin/sh
# usage: tools/mutant.sh <patch file | revert:<commit>> <Cnn> [tier] [seed]
# Applies a breaking change to /repo's working tree, runs the check, and undoes
# the change straight afterwards. Never commits anything in /repo.
set -u
what="$1"; id="$2"; tier="${3:-quick}"; seed="${4:-1}"
V="$(cd "$(dirname "$0")/.." && pwd)"
cd /repo || exit 2
if [ -n "$(git status --porcelain --untracked-files=no)" ]; then echo "repo not clean"; exit 2; fi
case "$what" in
  revert:*) git show "${what#revert:}" | git apply -R || { echo "cannot revert"; exit 2; } ;;
  *) git apply "$what" || { echo "cannot apply $what"; exit 2; } ;;
esac
cd "$V"
cp evidence/"$id".json /tmp/evidence_"$id".bak 2>/dev/null
VERIF_SEED=$seed ./run.sh "$id" "$tier" > /tmp/mutant.out 2>&1
rc=$?
git -C /repo checkout -- .
grep -E "^VIOLATION|^KNOWN|^INCONCLUSIVE|^C[0-9][0-9] tier" /tmp/mutant.out | cut -c1-220 | head -8
echo "exit=$rc"
# evidence was rewritten by a run on a modified tree: restore the committed one
if [ -f /tmp/evidence_"$id".bak ]; then mv /tmp/evidence_"$id".bak evidence/"$id".json; else rm -f evidence/"$id".json; fi
rm -f /tmp/mutant.out
exit 0
