#!/bin/sh
# usage: tools/harvest2.sh <Cnn> <seed-name>  (round 2: worktrees under /tmp/wt2)
id="$1"; name="$2"; wt=/tmp/wt2/$id
mkdir -p /verif/seeded/$name
git -C $wt diff > /verif/seeded/$name/patch.diff
cp $wt/zz_demo_* /verif/seeded/$name/ 2>/dev/null
wc -l /verif/seeded/$name/patch.diff
