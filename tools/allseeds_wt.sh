#!/bin/sh
# usage: tools/allseeds_wt.sh [tier] [seed] [name-glob]
# Like allseeds.sh, but leaves /repo alone: every seeded change is applied to a private scratch worktree
# of /repo (under /tmp, removed at the end) and checked from a private copy of /verif whose go.mod points
# at that worktree. Meant for regression runs in the background while /repo is in use.
tier="${1:-quick}"; seed="${2:-1}"; glob="${3:-*}"
V="$(cd "$(dirname "$0")/.." && pwd)"
W=/tmp/as_wt_$$; C=/tmp/as_vf_$$
git -C /repo worktree add -q --detach "$W" HEAD || exit 2
rsync -a --exclude .run --exclude replay --exclude .git --exclude .build --exclude bin "$V"/ "$C"/
sed -i "s#=> /repo#=> $W#" "$C"/go.mod
for d in "$V"/seeded/$glob/; do
  n=$(basename "$d"); id=$(echo "$n" | cut -c1-3)
  printf "%s: " "$n"
  if git -C "$W" apply "$d/patch.diff" 2>/dev/null; then
    (cd "$C" && VERIF_SEED=$seed ./run.sh "$id" "$tier" 2>&1 | grep -E "^C[0-9][0-9] tier|^INCONCL" | sed 's/cases=[0-9]* classes=[0-9]* //' | cut -c1-170 | tr '\n' ' ')
    git -C "$W" checkout -q -- .
  else
    printf "CANNOT APPLY"
  fi
  echo
done
git -C /repo worktree remove --force "$W"; rm -rf "$C"
