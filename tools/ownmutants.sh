#!/bin/sh
# Runs each patch in mutants/ (a) through the repo's own suite in a scratch worktree and (b) against its property's check.
V="$(cd "$(dirname "$0")/.." && pwd)"
export GOFLAGS=-mod=mod GOPROXY=off
wt=/tmp/wtm
[ -d $wt ] || git -C /repo worktree add -q --detach $wt HEAD
git -C $wt checkout -q --detach "$(git -C /repo rev-parse HEAD)"
for p in "$V"/mutants/*.patch; do
  n=$(basename $p .patch); id=$(echo $n | cut -c1-3)
  ( cd $wt && git checkout -q -- . && git apply $p && suite=$(go test -vet=off -count=1 ./... 2>&1 | grep -E "^--- FAIL" | grep -v "TestClient_TLS\|TestClient_logger\|TestClient_reattach\|TestClient_testInterface" | tr '\n' ' '); git checkout -q -- .; printf "%s | suite: %s | " "$n" "${suite:-pass}" )
  "$V"/tools/mutant.sh $p $id 2>&1 | grep -E "^C[0-9][0-9] tier|exit=|cannot" | sed 's/verdicts=map//' | tr '\n' ' ' | cut -c1-170
  echo
done
