package spec

import "fmt"

type C11Frame struct {
	Stream string `json:"s"` // "o" | "e"
	Len    int    `json:"n"`
	GapUs  int    `json:"g"`
}

type C11Plan struct {
	Seed   int64      `json:"seed"`
	Frames []C11Frame `json:"frames"`
	Ack    string     `json:"ack,omitempty"`
}

type C11Case struct {
	Proto         string  `json:"proto"` // netrpc | grpc | grpcmux
	Pre           C11Plan `json:"pre"`   // written the moment serving starts, before the host attaches
	Main          C11Plan `json:"main"`
	ClientDelayMs int     `json:"clientDelayMs"`
	Traffic       bool    `json:"traffic"` // RPC traffic concurrent with the writes
	ViaRPC        bool    `json:"viaRpc"`  // main plan issued over the plugin RPC instead of the side channel
	JitterUs      int     `json:"jitterUs"`
	PluginHook    string  `json:"pluginHook"` // VERIF_HOOK for the plugin process, e.g. grpcstdio.beforeSend:sleep:2
	// FlakyWriter (gRPC kinds): "<err|short>:<o|e>": the sync writer of that stream refuses every third Write
	// call (an error, nothing taken) or takes only the first half of it (short write). What that writer
	// refuses is lost to it; it must never turn up at the other stream's writer
	FlakyWriter string `json:"flakyWriter,omitempty"`
}

type C11Stream struct {
	Expected  int64  `json:"expected"` // bytes the plan writes to this stream
	Written   int64  `json:"written"`  // bytes the plugin reports written
	Received  int64  `json:"received"`
	FirstDiff int64  `json:"firstDiff"` // offset of the first byte that differs from the expected stream (-1 = none)
	IsPrefix  bool   `json:"isPrefix"`  // received is a prefix of expected (checked at every snapshot)
	CrossTag  bool   `json:"crossTag"`  // bytes at the diff look like a frame header of the other stream
	Context   string `json:"context,omitempty"`
	// flaky writer: Received is what it accepted; Offered counts every byte handed to it; NotSubseq: what it
	// accepted cannot be obtained from the expected stream by deleting bytes
	Flaky     bool  `json:"flaky,omitempty"`
	Offered   int64 `json:"offered,omitempty"`
	Refusals  int   `json:"refusals,omitempty"`
	NotSubseq bool  `json:"notSubseq,omitempty"`
}

type C11Obs struct {
	SetupErr  string    `json:"setupErr"`
	Out       C11Stream `json:"out"`
	Err       C11Stream `json:"err"`
	Snapshots int       `json:"snapshots"`
	WaitMs    int64     `json:"waitMs"`
	WriteErr  string    `json:"writeErr"`
	Alive     bool      `json:"alive"` // the connection still answered a Ping at the end
}

// FrameBytes: [tag 'O'|'E'][seq u32 LE][len u32 LE][payload]; the payload is a
// PRNG stream of (seed, tag, seq), so every frame is unique and self-describing.
func FrameBytes(seed int64, tag byte, seq uint32, n int) []byte {
	out := make([]byte, 9, 9+n)
	out[0] = tag
	out[1], out[2], out[3], out[4] = byte(seq), byte(seq>>8), byte(seq>>16), byte(seq>>24)
	out[5], out[6], out[7], out[8] = byte(n), byte(n>>8), byte(n>>16), byte(n>>24)
	return append(out, PRBytes(fmt.Sprintf("%d/%c/%d", seed, tag, seq), n)...)
}

// ExpectedStream regenerates what one stream must carry: the pre-attach frames
// of that stream in plan order, then the main frames, sequence numbers running on.
func ExpectedStream(c *C11Case, s string) []byte {
	tag := byte('O')
	if s == "e" {
		tag = 'E'
	}
	var out []byte
	seq := uint32(0)
	for _, pl := range []C11Plan{c.Pre, c.Main} {
		for _, f := range pl.Frames {
			if f.Stream == s {
				out = append(out, FrameBytes(c.Main.Seed, tag, seq, f.Len)...)
				seq++
			}
		}
	}
	return out
}
