package spec

type C16Case struct {
	Cookie    string `json:"cookie"`    // unset | empty | prefix | prefix64 | suffix | newline | othertail | case | other | padded | correct
	CfgCookie string `json:"cfgCookie"` // normal | emptyKey | emptyValue | long64 (a 64-character value) | long74
	Proto     string `json:"proto"`     // netrpc | grpc
	TLS       string `json:"tls"`       // none | provider | clientcert
	Sets      string `json:"sets"`      // legacy | versioned
	MuxEnv    string `json:"muxEnv"`    // unset | empty | true | false | junk
	Strace    bool   `json:"strace"`
	// Versions is the value of PLUGIN_PROTOCOL_VERSIONS: "" means the default "1,2"; "unset" leaves the
	// variable out, "empty" sets it to the empty string; anything else is passed literally (no common version, non-integer entries, blanks).
	Versions string `json:"versions,omitempty"`
	// PreTest: the process first serves once in test mode (and stops), then serves for real
	PreTest bool `json:"preTest,omitempty"`
	// PreTestSync: that test-mode serve has ServeTestConfig.SyncStdio set
	PreTestSync bool `json:"preTestSync,omitempty"`
	// SockDir: name of a subdirectory (created in the sandbox) handed to the plugin as PLUGIN_UNIX_SOCKET_DIR;
	// names with characters that are special somewhere (%, spaces, quotes, unicode)
	SockDir string `json:"sockDir,omitempty"`
	// Chatter: plugin code keeps printing lines to os.Stdout from 250 ms after the handshake line on, while
	// no host connects: after the handshake the plugin's stdout belongs to the stdio stream, not the real stdout
	Chatter bool `json:"chatter,omitempty"`
}

type C16Obs struct {
	SetupErr   string   `json:"setupErr"`
	Exited     bool     `json:"exited"`
	ExitCode   int      `json:"exitCode"`
	Stdout     []byte   `json:"stdout"`     // everything read from the real stdout
	StderrHead string   `json:"stderrHead"` // first 200 bytes of stderr
	Sockets    []string `json:"sockets"`    // socket files in the sandbox (while alive / after exit)
	DialErr    string   `json:"dialErr"`    // immediate connect to the announced address
	DialMs     int64    `json:"dialMs"`
	// strace
	Traced         bool     `json:"traced"`
	Binds          []string `json:"binds"`         // paths bound
	ListenBefore   bool     `json:"listenBefore"`  // a listen() was seen before the first write to fd 1
	Stdout1Writes  int      `json:"stdout1Writes"` // write(1, ...) calls
	FirstWriteHead string   `json:"firstWriteHead"`
}
