package spec

type C17Case struct {
	AutoMTLS    bool     `json:"autoMTLS"`
	Mux         bool     `json:"mux"`
	SkipHostEnv bool     `json:"skipHostEnv"`
	Sets        string   `json:"sets"`
	MinPort     uint     `json:"minPort"`
	MaxPort     uint     `json:"maxPort"`
	Group       bool     `json:"group"`   // configure UnixSocketConfig.Group = own gid
	TempDir     bool     `json:"tempDir"` // configure UnixSocketConfig.TempDir
	Launch      string   `json:"launch"`  // cmd | runner
	UserEnv     []string `json:"userEnv"` // entries the user put into Cmd.Env
	UserEnvName string   `json:"userEnvName,omitempty"`
	UserEnvHost bool     `json:"userEnvHost,omitempty"` // Cmd.Env = a copy of the host's own environment (the `append(os.Environ(), ...)` idiom)
	Ambient     []string `json:"ambient"`               // variables present in the host's own environment
	AmbientName string   `json:"ambientName"`
	// TwoClients (runner launch with TempDir): two clients are created from this one ClientConfig (one
	// UnixSocketConfig) and alive at the same time; each has a socket directory of its own
	TwoClients bool `json:"twoClients,omitempty"`
	// TwoConcurrent (with TwoClients, SkipHostEnv): the two clients are started at the same time, and the first
	// one's runner keeps the cmd.Env slice it was handed and "launches" from it in Runner.Start, which happens
	// after the second client has prepared its own launch: it must still find its own variables there
	TwoConcurrent bool `json:"twoConcurrent,omitempty"`
	// RetryStart (runner launch): the RunnerFunc fails the first time it is called; Start is called again on
	// the same client and the environment of that second launch is the one judged
	RetryStart bool   `json:"retryStart,omitempty"`
	E2E        bool   `json:"e2e"` // launch a real serving plugin and use it
	E2EProto   string `json:"e2eProto"`
}

type C17Obs struct {
	Env        []string `json:"env"` // as handed to the runner / received by the child, in order
	HostEnvLen int      `json:"hostEnvLen"`
	StdinSame  bool     `json:"stdinSame"`
	StartErr   string   `json:"startErr"`
	Gid        string   `json:"gid"`
	TempDir    string   `json:"tempDir"`
	Captured   bool     `json:"captured"`
	// two clients from one config: the directory each runner was handed, PLUGIN_UNIX_SOCKET_DIR in each
	// command's environment, and which directories exist at each stage ("AB" = both)
	TwoTmp        []string `json:"twoTmp,omitempty"`
	TwoEnvDir     []string `json:"twoEnvDir,omitempty"`
	TwoLaunchDir  []string `json:"twoLaunchDir,omitempty"`  // PLUGIN_UNIX_SOCKET_DIR in the kept slice at launch time
	TwoLaunchSame []bool   `json:"twoLaunchSame,omitempty"` // the kept slice still equals what the RunnerFunc was handed
	TwoStartErr   []string `json:"twoStartErr,omitempty"`
	ExistBoth     string   `json:"existBoth,omitempty"`   // after both started
	ExistAfterA   string   `json:"existAfterA,omitempty"` // after A was killed (B alive)
	ExistAfterB   string   `json:"existAfterB,omitempty"` // after both were killed
	// e2e
	ClientErr string `json:"clientErr"`
	PingErr   string `json:"pingErr"`
	CallErr   string `json:"callErr"`
	Line      string `json:"line"`
}
