package spec

type C14Case struct {
	Proto     string   `json:"proto"`     // netrpc | grpc
	ServerTLS string   `json:"serverTLS"` // none | static | ignorecert (serves plain text and ignores PLUGIN_CLIENT_CERT)
	ClientTLS string   `json:"clientTLS"` // none | static | wrongca | auto | auto+static
	Mux       bool     `json:"mux"`
	OldPlugin bool     `json:"oldPlugin"` // plugin that does not advertise multiplexing (pre-mux)
	Launch    string   `json:"launch"`    // cmd | runner | reattach
	Allowed   []string `json:"allowed"`   // nil => default
	RawLine   string   `json:"rawLine"`   // the "plugin" only prints this handshake line and stays alive (non-Go / old plugins)
	Conflict  string   `json:"conflict"`  // "" | cmd+reattach | secure+reattach | none-set
	// version sets (cmd / runner launches): both sides register several versions, each with the wire protocol
	// VerProto names for it; Proto then is the protocol of the highest common version ("" if none)
	VerHost   []int             `json:"verHost,omitempty"`
	VerPlugin []int             `json:"verPlugin,omitempty"`
	VerProto  map[string]string `json:"verProto,omitempty"`
	VerBest   int               `json:"verBest,omitempty"`
}

type C14Obs struct {
	SetupErr       string `json:"setupErr"`
	StartErr       string `json:"startErr"`
	StartReturned  bool   `json:"startReturned"`
	RetryOK        bool   `json:"retryOk,omitempty"` // after a failed Start: a second Start on the same client succeeded
	RetryErr       string `json:"retryErr,omitempty"`
	RetryProtocol  string `json:"retryProtocol,omitempty"`
	IsMuxErr       bool   `json:"isMuxErr"`
	IsSecureErr    bool   `json:"isSecureErr"`
	Pid            int    `json:"pid"`
	StateAfterErr  string `json:"stateAfterErr"`
	Protocol       string `json:"protocol"`
	ClientErr      string `json:"clientErr"`
	PingErr        string `json:"pingErr"`
	CallErr        string `json:"callErr"`
	Tag            string `json:"tag"`
	H2PErr         string `json:"h2pErr"`
	P2HErr         string `json:"p2hErr"`
	H2PAuth        string `json:"h2pAuth,omitempty"` // (gRPC) how the brokered connections are secured as their dialling side sees it: tls | none
	P2HAuth        string `json:"p2hAuth,omitempty"`
	BigErr         string `json:"bigErr"`
	BigLen         int    `json:"bigLen"`
	BigBrokeredErr string `json:"bigBrokeredErr,omitempty"` // (gRPC) 5 MiB responses on brokered connections, both directions
	UnknownErr     string `json:"unknownErr"`               // error of Dispense("no-such-plugin")
	UnknownNil     bool   `json:"unknownNil"`               // it returned (nil, nil)
	Hung           string `json:"hung"`
	KillReturned   bool   `json:"killReturned"`
	Panic          string `json:"panic"`
}
