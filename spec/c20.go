package spec

type C20Case struct {
	Kind         string `json:"kind"` // mux | grpc | grpcmux | client-netrpc | client-grpc | client-grpcmux
	G            int    `json:"g"`    // goroutines
	Ops          int    `json:"ops"`  // operations per goroutine
	ShutdownRace bool   `json:"shutdownRace"`
	Seed         int64  `json:"seed"`
	// AutoMTLS (client kinds): the client asks for AutoMTLS and the plugin logs to its stderr from the moment
	// it starts (start-up logging around the handshake)
	AutoMTLS bool `json:"autoMTLS,omitempty"`
	// SecondHost (client-grpc / client-netrpc): the plugin is started first, a second client reattaches to it and
	// connects (a second set of stdio streams on the same plugin), and the round's operations include
	// commands that make the plugin write to its stdout and stderr
	SecondHost bool `json:"secondHost,omitempty"`
}

type C20Obs struct {
	SetupErr     string         `json:"setupErr"`
	Ops          map[string]int `json:"ops"`    // operations executed per type
	OpErrs       map[string]int `json:"opErrs"` // ... that returned an error (expected under a shutdown race)
	Panics       []string       `json:"panics"` // panics recovered in calling goroutines
	HostIDs      []uint32       `json:"hostIds"`
	PluginIDs    []uint32       `json:"pluginIds"`
	DupHost      []uint32       `json:"dupHost"`
	DupPlugin    []uint32       `json:"dupPlugin"`
	PluginStderr string         `json:"pluginStderr"` // lines of the plugin's stderr mentioning panic / fatal error / DATA RACE
	Returned     bool           `json:"returned"`
	Dump         string         `json:"dump,omitempty"`
	Hooks        map[string]int `json:"hooks"`
}
