package spec

// RouteCase drives accept/dial pairs on one in-process connection pair. Used
// by C06 (mux, concurrent), C07 (grpc, concurrent), C08 (grpcmux, sequential).
type RouteCase struct {
	Kind       string      `json:"kind"` // mux | grpc | grpcmux
	Items      []RouteItem `json:"items"`
	Sequential bool        `json:"sequential"`
	Proc       string      `json:"proc"`  // "" = in-process pair; otherwise a real plugin subprocess launched this way (cmd | runner | runner-translate)
	TLS        string      `json:"tls"`   // (proc) none | auto
	DispG      int         `json:"dispG"` // goroutines dispensing concurrently (mux only)
	DispN      int         `json:"dispN"` // distinct plugin names
	JitterUs   int         `json:"jitterUs"`
	Seed       int64       `json:"seed"`
	// WrapDispense (mux): before the round the plugin-side broker's ID counter is moved to just below the
	// uint32 wrap, so that the round's dispenses reserve MaxUint32, 0, 1, ...
	WrapDispense bool `json:"wrapDispense,omitempty"`
}

type RouteItem struct {
	Dir         string `json:"dir"` // who dials: host | plugin
	AcceptFirst bool   `json:"acceptFirst"`
	GapMs       int    `json:"gapMs"`
	Len         int    `json:"len"`                 // payload length (mux)
	ID          uint32 `json:"id"`                  // broker id; ids are per accepting side, so the same number is used in both directions
	SlowMs      int    `json:"slowMs"`              // (grpc kinds) the server factory passed to AcceptAndServe takes this long
	WaitReady   bool   `json:"waitReady,omitempty"` // (grpc kinds) the dialler's first call waits for the connection (gRPC keeps reconnecting)
	// HoldAtPickupMs (mux): the Accept is held this long between taking the parked connection and
	// acknowledging it (hook point mux.accept.gotConn)
	HoldAtPickupMs int `json:"holdAtPickupMs,omitempty"`
	// LineUp (mux): the id is dialled first and its Accept is issued at the very moment the accepting side's
	// Run goroutine has read the id off the new stream (hook point mux.run.gotID), by a goroutine that
	// spins on a flag: both reach the pending-entry lookup within a microsecond of each other
	LineUp bool `json:"lineUp,omitempty"`
	// ReuseAfterMs (mux): the id was used before: an earlier pair on it is run to completion (connected, data
	// exchanged, both ends closed), and the judged pair's first call is issued this long after that earlier
	// pair's dial
	ReuseAfterMs int `json:"reuseAfterMs,omitempty"`
	// DialHoldMs (mux): the dialler waits this long between Dial returning and writing its (large) frame
	DialHoldMs int `json:"dialHoldMs,omitempty"`
	// LateReadMs (mux): a one-way transfer: the dialler writes its frame and closes its end at once; the
	// acceptor starts reading this long after it accepted and must still get the whole frame, then EOF
	LateReadMs int `json:"lateReadMs,omitempty"`
	// CallbackShape (grpc, no mux): the id NUMBER is first used in the other direction -- the dialling side
	// accepts and serves it, the accepting side dials that server and is done -- then the judged pair is
	// established accept-first, and between its accept and its dial the dialling side stops its own server
	// (and so closes its own listener) of that number
	CallbackShape bool `json:"callbackShape,omitempty"`
	// HoldAtGotInfoMs (grpc, no mux): the Dial is held this long between receiving the listener's address and
	// connecting to it (hook point grpcbroker.dial.gotInfo; a slow address translator does the same)
	HoldAtGotInfoMs int `json:"holdAtGotInfoMs,omitempty"`
	// Raw (grpc kinds): the id is accepted with a plain Accept and served by the harness's own server, so that
	// the listener can be closed at a chosen moment. Reaccept: the still-open raw listener of (accepting
	// side, id) is closed and the id accepted again at once (new answer), then dialled.
	Raw      bool `json:"raw,omitempty"`
	Reaccept bool `json:"reaccept,omitempty"`
	// ShortConnect (grpc kinds): dialled with DialWithOptions and a 300 ms connect timeout (200 ms backoff);
	// the first call waits for the connection (gRPC keeps reconnecting)
	ShortConnect bool `json:"shortConnect,omitempty"`
	// StaleDial (grpc, no mux): before the pair is established, the id is dialled once with nobody accepting
	// (that dial times out after 5 s and is not judged); the pair that follows must be unaffected
	StaleDial bool `json:"staleDial,omitempty"`
	// DoubleClose (reaccept): the old listener is closed a second time after the id was accepted again
	// ClosedUnderDial (grpcmux, a case with a host child of its own): before the judged pair is established, another
	// id (ID+500000) is accepted on the accepting side with a plain Accept and dialled, and its listener is
	// closed at the moment the dial's stream arrives at the accepting side's muxer (hook points
	// grpcmux.server.accepted / grpcmux.client.unblocked). That dial may fail and is not judged; the judged
	// pair, like every later one, must be unaffected
	ClosedUnderDial bool `json:"closedUnderDial,omitempty"`
	DoubleClose     bool `json:"doubleClose,omitempty"`
	Redial          bool `json:"redial"`
	AtExpiry        bool `json:"atExpiry"` // (redial) issued about 5 s after the previous dial to this listener: the moment the broker expires that dial's bookkeeping
	SkewUs          int  `json:"skewUs"`   // offset from that instant, microseconds (may be negative) // (grpcmux) no new accept: dial the still-open listener of (accepting side, id) again
}

// RouteObs: what one end of one id observed.
type RouteObs struct {
	ID        uint32 `json:"id"`
	Idx       int    `json:"idx"`
	Role      string `json:"role"` // accept | dial
	Side      string `json:"side"`
	Nonce     string `json:"nonce"`
	PeerID    uint32 `json:"peerId"`
	PeerNonce string `json:"peerNonce"`
	PayloadOK bool   `json:"payloadOk"`
	Extra     int    `json:"extra"`
	Msg       string `json:"msg"` // grpc: first-call answer
	Err       string `json:"err"`
	Ms        int64  `json:"ms"`
}

// RouteHealth: after an establishment (grpcmux): control ping and re-ping of
// every earlier brokered connection.
type RouteHealth struct {
	Idx      int      `json:"idx"`
	PingErr  string   `json:"pingErr"`
	CallErr  string   `json:"callErr"`
	Reping   []string `json:"reping"` // "<id>:<answer or error>"
	RepingOK bool     `json:"repingOk"`
}

type DispObs struct {
	G      int    `json:"g"`
	Want   string `json:"want"`
	Name   string `json:"name"`
	Serial int64  `json:"serial"`
	Err    string `json:"err"`
}

type RouteEnd struct {
	Hooks    map[string]int `json:"hooks"`
	Minted   int64          `json:"minted"`
	MaxPend  int            `json:"maxPend"`
	Returned bool           `json:"returned"`
	P2HCalls int            `json:"p2hCalls"` // (proc, custom runner) AddrTranslator calls observed
	H2PCalls int            `json:"h2pCalls"`
	Dump     string         `json:"dump,omitempty"`
}
