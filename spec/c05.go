package spec

type C05Case struct {
	Cause     string `json:"cause"`
	Launch    string `json:"launch"` // cmd | runner | scripted
	JitterMs  int    `json:"jitterMs"`
	TimeoutMs int    `json:"timeoutMs"`
}

type C05Obs struct {
	StartErr      string   `json:"startErr"`
	StartMs       int64    `json:"startMs"`
	StartReturned bool     `json:"startReturned"`
	Pid           int      `json:"pid"`
	StateAtReturn string   `json:"stateAtReturn"`
	StateSoon     string   `json:"stateSoon"` // after polling up to 5 s
	SoonMs        int64    `json:"soonMs"`
	RunnerKills   int      `json:"runnerKills"`
	KillReturned  bool     `json:"killReturned"`
	KillMs        int64    `json:"killMs"`
	StateAfter    string   `json:"stateAfterKill"`
	HostDirLeft   []string `json:"hostDirLeft"` // entries left in the host-side temp dir after Kill
	Exited        bool     `json:"exited"`
	Dump          string   `json:"dump,omitempty"`
}
