package spec

type C05Case struct {
	Cause     string `json:"cause"`
	Launch    string `json:"launch"` // cmd | runner | scripted
	JitterMs  int    `json:"jitterMs"`
	TimeoutMs int    `json:"timeoutMs"`
	// TimeoutUs > 0: a StartTimeout of this many microseconds instead (1 = one nanosecond): the timeout
	// expires while the launch itself is still in progress
	TimeoutUs int `json:"timeoutUs,omitempty"`
}

type C05Obs struct {
	StartErr      string   `json:"startErr"`
	StartMs       int64    `json:"startMs"`
	StartReturned bool     `json:"startReturned"`
	Pid           int      `json:"pid"`
	LiveSeen      bool     `json:"liveSeen,omitempty"` // (tiny timeouts) a live process of this case was seen after Start returned
	StateAtReturn string   `json:"stateAtReturn"`
	StateSoon     string   `json:"stateSoon"` // after polling up to 5 s
	SoonMs        int64    `json:"soonMs"`
	RunnerKills   int      `json:"runnerKills"`
	KillReturned  bool     `json:"killReturned"`
	KillMs        int64    `json:"killMs"`
	StateAfter    string   `json:"stateAfterKill"`
	HostDirLeft   []string `json:"hostDirLeft"` // entries left in the host-side temp dir after Kill
	Exited        bool     `json:"exited"`
	Dump          string   `json:"dump,omitempty"`
}
