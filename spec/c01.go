package spec

// C01Case: one (first stdout line, client configuration) pair.
type C01Case struct {
	Line       []byte   `json:"line"`
	End        string   `json:"end"`     // open | close | exit  (what the "process" does after writing)
	Allowed    []string `json:"allowed"` // nil => AllowedProtocols left nil
	Sets       string   `json:"sets"`    // legacy1 | versioned12 | v0 | both123
	TLS        string   `json:"tls"`     // none | static | static-roots (a static TLSConfig with RootCAs of its own) | auto
	Mux        bool     `json:"mux"`
	TimeoutMs  int      `json:"timeoutMs"`
	Real       bool     `json:"real"` // through a real subprocess and cmdrunner
	HangFactor int      `json:"-"`
}

type C01Obs struct {
	Returned      bool   `json:"returned"`
	ElapsedMs     int64  `json:"elapsedMs"`
	Err           string `json:"err"`
	ErrNil        bool   `json:"errNil"`
	AddrNil       bool   `json:"addrNil"`
	AddrTypedNil  bool   `json:"addrTypedNil"`
	Net           string `json:"net"`
	Addr          []byte `json:"addr"`
	Addr2         []byte `json:"addr2,omitempty"`   // "<network> <address>" returned by a second Start
	AddrRC        []byte `json:"addrRC,omitempty"`  // the same from ReattachConfig() (real-subprocess cases)
	RetryOK       bool   `json:"retryOk,omitempty"` // after a failed Start: a second Start succeeded
	RetryAddr     string `json:"retryAddr,omitempty"`
	RetryProtocol string `json:"retryProtocol,omitempty"`
	RetryRC       bool   `json:"retryRC,omitempty"` // ... ReattachConfig() is non-nil
	Protocol      string `json:"protocol"`
	Version       int    `json:"version"`
	Kills         int    `json:"kills"`
	Starts        int    `json:"starts"`
	Panic         string `json:"panic"`
	Dump          string `json:"dump,omitempty"`
	KillReturned  bool   `json:"killReturned"`
}

// Offered returns the application versions a host with this Sets layout offers.
func C01Offered(sets string) []int {
	switch sets {
	case "legacy1":
		return []int{1}
	case "versioned12":
		return []int{1, 2}
	case "v0":
		return []int{0}
	case "both123":
		return []int{1, 2, 3}
	case "versioned8_10":
		return []int{8, 10}
	case "versioned02":
		return []int{0, 2}
	}
	return nil
}
