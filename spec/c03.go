package spec

type C03Case struct {
	Proto    string `json:"proto"`    // netrpc | grpc | grpcmux
	Scenario string `json:"scenario"` // see host/c03_test.go
	Death    string `json:"death"`    // kill | exit (hook scenarios)
	Arg      int    `json:"arg"`      // partial-line offset / kill delay ms / seed
}

// C03Call is one host call with its outcome.
type C03Call struct {
	Op       string `json:"op"`
	Phase    string `json:"phase"` // pre | inflight | post
	Returned bool   `json:"returned"`
	Err      string `json:"err"`
	OK       bool   `json:"ok"`
	Ms       int64  `json:"ms"`
	Panic    string `json:"panic,omitempty"`
	Note     string `json:"note,omitempty"`
}

type C03Obs struct {
	Calls        []C03Call `json:"calls"`
	Pid          int       `json:"pid"`
	Died         bool      `json:"died"` // the plugin process was seen dead (gone / zombie)
	DiedMs       int64     `json:"diedMs"`
	ExitedTrue   bool      `json:"exitedTrue"` // Exited() became true within H after the death
	ExitedMs     int64     `json:"exitedMs"`
	CtxCancelled bool      `json:"ctxCancelled"` // gRPC: the context handed to GRPCClient was cancelled within H
	HaveCtx      bool      `json:"haveCtx"`
	KillReturned bool      `json:"killReturned"`
	Dump         string    `json:"dump,omitempty"`
	SetupErr     string    `json:"setupErr,omitempty"`
}
