package spec

// C09Case: a history of unmatched / duplicate / late broker operations on one
// in-process connection pair, followed by fresh matched pairs.
type C09Case struct {
	Kind  string   `json:"kind"`  // mux | grpc | grpcmux
	Steps []string `json:"steps"` // e.g. "dial-noaccept:host"
	// CloseRace (gRPC kinds): the final close races with eight goroutines announcing listeners on both sides
	CloseRace bool `json:"closeRace,omitempty"`
	// PeerGoneFirst (gRPC kinds): a host-side AcceptAndServe is pending (nobody dials it) when the plugin's
	// gRPC server is stopped, so that the broker's control stream ends by itself; only then is the client
	// closed. The pending AcceptAndServe must return.
	PeerGoneFirst bool `json:"peerGoneFirst,omitempty"`
}

type C09Step struct {
	Step     string   `json:"step"`
	Returned bool     `json:"returned"` // every call of the step returned within H
	Ms       int64    `json:"ms"`
	Errs     []string `json:"errs"` // error of each call ("" = success)
	Note     string   `json:"note,omitempty"`
	Dump     string   `json:"dump,omitempty"`
}

type C09Fresh struct {
	Dir      string `json:"dir"` // who dials: host | plugin
	Returned bool   `json:"returned"`
	OK       bool   `json:"ok"`
	Err      string `json:"err"`
	Ms       int64  `json:"ms"`
	Dump     string `json:"dump,omitempty"`
}

type C09End struct {
	ClosedOK   bool   `json:"closedOk"`
	CloseRaced bool   `json:"closeRaced,omitempty"`
	StormStuck int    `json:"stormStuck,omitempty"` // announcing goroutines that had not returned 20 s after the close
	StormDump  string `json:"stormDump,omitempty"`
	// PeerGoneFirst: the pending AcceptAndServe had not returned brokerH after the close
	PendingStuck bool   `json:"pendingStuck,omitempty"`
	PendingDump  string `json:"pendingDump,omitempty"`
	PeerGone     bool   `json:"peerGone,omitempty"`
}

// C09Leak is emitted once per host child (case -1) after every pair was closed.
type C09Leak struct {
	BrokerGoroutines int    `json:"brokerGoroutines"`
	Sample           string `json:"sample"`
	Total            int    `json:"total"`
	WaitedMs         int64  `json:"waitedMs"`
}
