// Package spec holds what the driver (vcheck), the host workloads (vhost) and
// the scripted plugin (vplugin) share: case and event encodings. It does not
// import go-plugin.
package spec

import (
	"bufio"
	"encoding/json"
	"fmt"
	"os"
	"sync"
	"time"
)

// Case is one generated input for a property's workload.
type Case struct {
	ID   int             `json:"id"`
	Kind string          `json:"kind"`
	P    json.RawMessage `json:"p"`
}

// Event is one line of a host child's event log.
type Event struct {
	Case int             `json:"case"`
	T    int64           `json:"t"` // monotonic ns since child start
	G    string          `json:"g,omitempty"`
	Ev   string          `json:"ev"` // case-begin, case-end, call, ret, obs, hook, note
	Op   string          `json:"op,omitempty"`
	D    json.RawMessage `json:"d,omitempty"`
}

// Log is a concurrency-safe JSONL event writer.
type Log struct {
	mu    sync.Mutex
	f     *os.File
	w     *bufio.Writer
	start time.Time
}

func OpenLog(path string) (*Log, error) {
	f, err := os.OpenFile(path, os.O_CREATE|os.O_WRONLY|os.O_APPEND, 0o644)
	if err != nil {
		return nil, err
	}
	return &Log{f: f, w: bufio.NewWriter(f), start: time.Now()}, nil
}

func (l *Log) Now() int64 { return int64(time.Since(l.start)) }

// Emit writes and flushes one event (flushing matters: a child that dies must
// leave behind everything it logged before the fatal call).
func (l *Log) Emit(c int, g, ev, op string, d any) int64 {
	var raw json.RawMessage
	if d != nil {
		b, err := json.Marshal(d)
		if err != nil {
			b, _ = json.Marshal(fmt.Sprintf("marshal error: %v", err))
		}
		raw = b
	}
	l.mu.Lock()
	defer l.mu.Unlock()
	t := l.Now()
	b, _ := json.Marshal(Event{Case: c, T: t, G: g, Ev: ev, Op: op, D: raw})
	l.w.Write(b)
	l.w.WriteByte('\n')
	l.w.Flush()
	return t
}

func (l *Log) Close() { l.mu.Lock(); l.w.Flush(); l.f.Close(); l.mu.Unlock() }

// ReadEvents parses a JSONL event file; a torn last line is ignored.
func ReadEvents(path string) ([]Event, error) {
	f, err := os.Open(path)
	if err != nil {
		return nil, err
	}
	defer f.Close()
	var out []Event
	sc := bufio.NewScanner(f)
	sc.Buffer(make([]byte, 1<<20), 1<<28)
	for sc.Scan() {
		var e Event
		if json.Unmarshal(sc.Bytes(), &e) == nil {
			out = append(out, e)
		}
	}
	return out, nil
}

func ReadCases(path string) ([]Case, error) {
	b, err := os.ReadFile(path)
	if err != nil {
		return nil, err
	}
	var cs []Case
	err = json.Unmarshal(b, &cs)
	return cs, err
}

func MustJSON(v any) json.RawMessage {
	b, err := json.Marshal(v)
	if err != nil {
		panic(err)
	}
	return b
}

// Handshake constants shared by host and plugin.
const (
	CookieKey   = "VERIF_PLUGIN_COOKIE"
	CookieValue = "c0ffee-verif-cookie"
)
