package spec

type C12Case struct {
	Proto    string `json:"proto"`    // netrpc | grpc | grpcmux
	Path     string `json:"path"`     // main | plugin-brokered | host-brokered | main-race (mux: intruder connects before the host)
	Impostor string `json:"impostor"` // "" | tls | plaintext  (impostor cases ignore Path)
	Launch   string `json:"launch"`
	// CertEnv (Path "direct-env"): the plugin is started directly, as a host would start it, with this shape of
	// PLUGIN_CLIENT_CERT: plain | cert+junkblock | junkblock+cert | cert+keyblock | cert+text | two-certs |
	// junkblock-only | text-only
	CertEnv string `json:"certEnv,omitempty"`
}

type C12Attempt struct {
	Cred     string `json:"cred"`
	Answered bool   `json:"answered"` // an RPC issued by the intruder was answered
	Err      string `json:"err"`
	Ms       int64  `json:"ms"`
}

type C12Obs struct {
	SetupErr   string       `json:"setupErr"`
	Target     string       `json:"target"` // socket path attacked
	PositiveOK bool         `json:"positiveOk"`
	Positive   string       `json:"positive"`
	Attempts   []C12Attempt `json:"attempts"`
	Line       string       `json:"line,omitempty"` // direct-env: the handshake line
	// impostor
	HostOps []string `json:"hostOps"` // "<op>: ok|err ..."
	AnyOK   bool     `json:"anyOk"`
}
