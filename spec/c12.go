package spec

type C12Case struct {
	Proto    string `json:"proto"`    // netrpc | grpc | grpcmux
	Path     string `json:"path"`     // main | plugin-brokered | host-brokered | main-race (mux: intruder connects before the host)
	Impostor string `json:"impostor"` // "" | tls | plaintext  (impostor cases ignore Path)
	Launch   string `json:"launch"`
}

type C12Attempt struct {
	Cred     string `json:"cred"`
	Answered bool   `json:"answered"` // an RPC issued by the intruder was answered
	Err      string `json:"err"`
	Ms       int64  `json:"ms"`
}

type C12Obs struct {
	SetupErr   string       `json:"setupErr"`
	Target     string       `json:"target"` // socket path attacked
	PositiveOK bool         `json:"positiveOk"`
	Positive   string       `json:"positive"`
	Attempts   []C12Attempt `json:"attempts"`
	// impostor
	HostOps []string `json:"hostOps"` // "<op>: ok|err ..."
	AnyOK   bool     `json:"anyOk"`
}
