package spec

type C13Case struct {
	FileKind string `json:"fileKind"` // script | junk
	FileSize int    `json:"fileSize"` // total size (script padded with a comment)
	FileSeed int64  `json:"fileSeed"`
	Hash     string `json:"hash"` // sha256 | sha512 | sha1 | md5 | nil
	Variant  string `json:"variant"`
	Checksum []byte `json:"checksum"` // nil => nil slice
	Missing  bool   `json:"missing"`  // the command path does not exist
	// Steps: a history of launches from the same command path that share ONE SecureConfig value
	// (a host relaunching a plugin, several clients built from one config). Each step names the
	// file content at that moment: "good" (hashes to Checksum) or "tampered" (good + 2 bytes).
	Steps       []string `json:"steps,omitempty"`
	CallerReset bool     `json:"callerReset,omitempty"` // the caller calls Hash.Reset() before each launch
	// InPlace (histories): the file is not replaced but rewritten in place (same inode) with content of the
	// same length (a tampered file differs in its last byte), and its modification time is put back afterwards
	InPlace bool `json:"inPlace,omitempty"`
	// PathKind: how the command path names the file. "" = plain path. Otherwise two files exist, the one the
	// checksum was computed from ("approved") and a tampered one (approved + 2 bytes), and the path reaches
	// one of them in a way in which lexical and kernel path resolution differ or a symlink is involved:
	//   dotdot-approved / dotdot-tampered   <dir>/a/link/../bin with a/link -> <dir>/b/sub: the kernel runs <dir>/b/bin,
	//                                       a lexically cleaned path names <dir>/a/bin; the suffix says which file is at b/bin
	//   symlink-approved / symlink-tampered the path is a symlink to the named file
	//   relative-approved / relative-tampered  a relative Cmd.Path (Cmd.Dir unset, resolved against the host's cwd)
	//   argv0-approved / argv0-tampered     a relative Cmd.Path to the named file, with an argv[0] that names the other
	//                                       file by its absolute path (the kernel runs Cmd.Path, argv[0] is only a name)
	//   barename-approved / barename-tampered  a bare command name in a hand-built Cmd: the named file is the one of
	//                                       that name in the host's working directory (which exec runs), the other
	//                                       one has the same name in a directory at the front of PATH
	PathKind string `json:"pathKind,omitempty"`
	// ViaRunner: the client is configured with a RunnerFunc (no Cmd) and this SecureConfig. There is no
	// file go-plugin could hash: nothing may be launched (the RunnerFunc must not even be invoked)
	ViaRunner bool `json:"viaRunner,omitempty"`
	// Concurrent: two clients share one SecureConfig (with a hash object that is safe to share: Reset takes a
	// lock that Sum releases) and are started a few ms apart; Concurrent[i] is the content at client i's path
	// ("good" | "tampered")
	Concurrent []string `json:"concurrent,omitempty"`
}

type C13StepObs struct {
	Err        string `json:"err"`
	IsMismatch bool   `json:"isMismatch"`
	Marker     bool   `json:"marker"`
	ProcessSet bool   `json:"processSet"`
	FileSum    []byte `json:"fileSum"`
}

type C13Obs struct {
	Err          string       `json:"err"`
	IsMismatch   bool         `json:"isMismatch"`
	IsNoChecksum bool         `json:"isNoChecksum"`
	IsNoHash     bool         `json:"isNoHash"`
	Marker       bool         `json:"marker"`
	ProcessSet   bool         `json:"processSet"` // exec.Cmd.Process != nil after Start
	FileSum      []byte       `json:"fileSum"`    // digest the host computed (for cross-check only)
	Steps        []C13StepObs `json:"steps,omitempty"`
	RunnerCalls  int          `json:"runnerCalls,omitempty"`
}

// PRBytes is a deterministic pseudo-random byte stream.
func PRBytes(seed string, n int) []byte {
	var x uint64 = 0x9e3779b97f4a7c15
	for _, c := range []byte(seed) {
		x = (x ^ uint64(c)) * 0x100000001b3
	}
	out := make([]byte, n)
	for i := range out {
		x ^= x << 13
		x ^= x >> 7
		x ^= x << 17
		out[i] = byte(x >> 24)
	}
	return out
}

// C13File builds the file content for a case, deterministically. A script
// writes its launch marker into $TMPDIR as its very first action.
func C13File(kind string, size int, seed int64) []byte {
	if kind == "junk" {
		return PRBytes("junk"+string(rune(seed)), size)
	}
	s := []byte("#!/bin/sh\necho launched > \"$VERIF_MARKER_DIR/launched\"\nsleep 30\n#")
	pad := PRBytes("pad"+string(rune(seed)), size)
	for i := 0; len(s) < size; i++ {
		s = append(s, 'a'+pad[i]%26)
	}
	return s
}
