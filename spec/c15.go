package spec

type C15Case struct {
	Proto   string   `json:"proto"` // netrpc | grpc
	Mode    string   `json:"mode"`  // proc | testmode
	Steps   []string `json:"steps"`
	ConcOps int      `json:"concOps"` // concurrent put/get phase through A and the first reattached client (0 = none)
	// VersionSkew (testmode): the server registers its set under version 3 only (VersionedPlugins) and reports
	// that version in its reattach config; the reattaching clients have their set in Plugins under handshake
	// version 1. A reattach does not negotiate: they still dispense from the set they configured
	VersionSkew bool `json:"versionSkew,omitempty"`
}

type C15Step struct {
	Step     string `json:"step"`
	OK       bool   `json:"ok"`
	Err      string `json:"err"`
	NotFound bool   `json:"notFound"` // errors.Is(err, ErrProcessNotFound)
	Instance string `json:"instance"`
	Value    string `json:"value"`
	Found    bool   `json:"found"`
	Protocol string `json:"protocol"`
	State    string `json:"state"`   // /proc state of the plugin after the step (proc mode)
	Exited   bool   `json:"exited"`  // Exited() of the client the step used
	Serving  bool   `json:"serving"` // testmode: the server still answers a fresh reattach + ping
	ClosedCh bool   `json:"closedCh"`
	Returned bool   `json:"returned"`
	// a failed reattach is retried on the same client: Start again, then Protocol()
	RetryOK       bool   `json:"retryOk,omitempty"`
	RetryErr      string `json:"retryErr,omitempty"`
	RetryProtocol string `json:"retryProtocol,omitempty"`
	// proc mode, after kill / sigkill: for every client of the plugin, whether it reported Exited() within 8 s
	AllExited []bool `json:"allExited,omitempty"`
}

type C15Op struct {
	Client int    `json:"client"`
	Kind   string `json:"kind"` // put | get
	Key    string `json:"key"`
	Val    string `json:"val"`
	Got    string `json:"got"`
	Found  bool   `json:"found"`
	Err    string `json:"err"`
	Call   int64  `json:"call"`
	Ret    int64  `json:"ret"`
}

type C15Obs struct {
	SetupErr  string    `json:"setupErr"`
	InstanceA string    `json:"instanceA"`
	ProtoA    string    `json:"protoA"`
	Steps     []C15Step `json:"steps"`
	Ops       []C15Op   `json:"ops"`
}
