package spec

// C19Case: a program of Client life-cycle calls.
type C19Case struct {
	Mode    string     `json:"mode"`    // ok | ok-nolisten | ok-latelisten (step Listen brings the server up) | fail-line | fail-timeout | fail-exit | prelaunch-fail | proc-ok | proc-fail | cmd-ok | cmd-fail
	Threads [][]string `json:"threads"` // ops per goroutine: Start Client Protocol ReattachConfig ID Exited Kill
	Jitter  bool       `json:"jitter"`
}

// C19Res is the abstracted result of one call.
type C19Res struct {
	OK    bool   `json:"ok"`
	Err   string `json:"err,omitempty"`
	Addr  string `json:"addr,omitempty"` // Start / ReattachConfig
	Ptr   string `json:"ptr,omitempty"`  // Client: identity of the returned protocol client
	Str   string `json:"str,omitempty"`  // Protocol / ID
	Bool  bool   `json:"bool,omitempty"` // Exited; ReattachConfig non-nil
	Hung  bool   `json:"hung,omitempty"`
	Panic string `json:"panic,omitempty"`
}

type C19End struct {
	Launches    int    `json:"launches"` // runner.Start calls (or RunnerFunc invocations that reached Start)
	RunnerFuncs int    `json:"runnerFuncs"`
	Kills       int    `json:"kills"`
	PluginDirs  int    `json:"pluginDirs"` // plugin-dir* left in the private temp dir at the end (after a final Kill)
	FinalKillOK bool   `json:"finalKillOk"`
	Dump        string `json:"dump,omitempty"`
}
