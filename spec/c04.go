package spec

type C04Case struct {
	Behaviour  string   `json:"behaviour"`  // exit-now | exit-200 | exit-600 | exit-1000 | never | busy | frozen | crashed | failed-handshake
	Proto      string   `json:"proto"`      // netrpc | grpc | grpcmux
	Launch     string   `json:"launch"`     // cmd | runner | reattach
	Pattern    string   `json:"pattern"`    // single | sequential | concurrent | cleanup
	Behaviours []string `json:"behaviours"` // cleanup: one per managed client
	// PreKill (cleanup): Kill was called on this managed client before its Start (a no-op on a client that has
	// no process yet); the process it starts afterwards is still CleanupClients' to end
	PreKill []bool `json:"preKill,omitempty"`
	// PreCleanup (cleanup): CleanupClients ran once after the first managed client was created and before it
	// was started. DoubleCleanup: a second CleanupClients call is issued 150 ms after the first, while that one
	// is still at work; when the second returns every managed plugin must be gone as well
	PreCleanup    bool `json:"preCleanup,omitempty"`
	DoubleCleanup bool `json:"doubleCleanup,omitempty"`
}

type C04Client struct {
	Behaviour    string `json:"behaviour"`
	PreKill      bool   `json:"preKill,omitempty"`
	Pid          int    `json:"pid"`
	SetupErr     string `json:"setupErr"`
	StateBefore  string `json:"stateBefore"`
	KillReturned bool   `json:"killReturned"`
	KillMs       int64  `json:"killMs"`
	StateAfter   string `json:"stateAfter"`
	Exited       bool   `json:"exited"`
	Marker       bool   `json:"marker"`
	Panic        string `json:"panic"`
	EarlyReturn  string `json:"earlyReturn"` // a Kill call returned while the process was still alive / Exited() false
	Dump         string `json:"dump,omitempty"`
}

type C04Obs struct {
	Clients    []C04Client `json:"clients"`
	KilledFlag uint32      `json:"killedFlag"` // plugin.Killed after CleanupClients
	// DoubleCleanup: states of the managed plugins at the moment the second CleanupClients call returned
	SecondReturnStates []string `json:"secondReturnStates,omitempty"`
}
