package spec

// C02Side describes the plugin sets of one side.
type C02Side struct {
	Versioned []int `json:"versioned"` // versions registered through VersionedPlugins
	Legacy    *int  `json:"legacy"`    // version registered through ProtocolVersion+Plugins (nil = not used)
	// Overlap (host side): ProtocolVersion names a version that also has its own entry in VersionedPlugins,
	// and the legacy Plugins field holds the very set object registered under OverlapSetOf (another entry
	// of VersionedPlugins). The entry of VersionedPlugins is the one in force for that version
	// (client.go: "VersionedPlugins doesn't conflict").
	// HandshakeOnly (host side): HandshakeConfig.ProtocolVersion is this (non-zero) number while Plugins is nil
	// and VersionedPlugins has no entry for it: the host does not offer that version
	HandshakeOnly *int `json:"handshakeOnly,omitempty"`
	Overlap       *int `json:"overlap,omitempty"`
	OverlapSetOf  *int `json:"overlapSetOf,omitempty"`
}

func (s C02Side) Set() []int {
	out := append([]int(nil), s.Versioned...)
	if s.Legacy != nil {
		out = append(out, *s.Legacy)
	}
	return out
}

type C02Case struct {
	Host   C02Side           `json:"host"`
	Plugin C02Side           `json:"plugin"`
	Proto  map[string]string `json:"proto"`  // version -> netrpc | grpc (same on both sides)
	EnvRaw string            `json:"envRaw"` // "" = not run; otherwise the PLUGIN_PROTOCOL_VERSIONS value for a direct run ("<unset>" = variable absent)
	// Plugin2: a second launch through the SAME *ClientConfig object, against a plugin with these sets
	Plugin2 *C02Side `json:"plugin2,omitempty"`
}

type C02Obs struct {
	StartErr   string  `json:"startErr"`
	Negotiated int     `json:"negotiated"`
	Protocol   string  `json:"protocol"`
	PluginTag  string  `json:"pluginTag"`
	HostTag    string  `json:"hostTag"`
	CallErr    string  `json:"callErr"`
	Pid        int     `json:"pid"`
	StateSoon  string  `json:"stateSoon"`
	RawLine    string  `json:"rawLine"`
	RawErr     string  `json:"rawErr"`
	SentList   string  `json:"sentList"` // what the host actually put into PLUGIN_PROTOCOL_VERSIONS (from the plugin's env dump)
	Second     *C02Obs `json:"second,omitempty"`
}
