package spec

// C10Case: bytes a plugin writes to its real stderr and (after the handshake
// line) to its real stdout.
type C10Case struct {
	Stderr    []byte `json:"stderr"`
	Stdout    []byte `json:"stdout"`
	StdoutRep int    `json:"stdoutRep"` // Stdout is written this many times (volume)
	Chunk     int    `json:"chunk"`     // write size (0 = all at once)
	BufSize   int    `json:"bufSize"`   // PluginLogBufferSize (0 = default 64 KiB)
	Real      bool   `json:"real"`
}

type C10Rec struct {
	Level string   `json:"level"`
	Msg   []byte   `json:"msg"`
	KV    []string `json:"kv"` // "key=<json of value>"
}

type C10Obs struct {
	StartErr      string   `json:"startErr"`
	ErrWriterDone bool     `json:"errWriterDone"`
	OutWriterDone bool     `json:"outWriterDone"`
	OutWritten    int64    `json:"outWritten"`
	Copy          []byte   `json:"copy"`
	Recs          []C10Rec `json:"recs"`
	KillReturned  bool     `json:"killReturned"`
	Dump          string   `json:"dump,omitempty"`
}
