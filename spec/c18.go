package spec

type C18Case struct {
	Proto            string   `json:"proto"`            // netrpc | grpc | grpcmux
	TLS              string   `json:"tls"`              // none | auto
	Launch           string   `json:"launch"`           // cmd | runner
	Steps            []string `json:"steps"`            // dispense | call | h2p (plugin accepts, host dials) | p2h (host accepts, plugin dials) | stdio
	ExitMs           int      `json:"exitMs"`           // plugin cleanup duration after the shutdown request
	KillRacesAccepts bool     `json:"killRacesAccepts"` // (gRPC, no mux) eight host goroutines keep calling broker.Accept(NextId()) while Kill runs
	KeepConns        bool     `json:"keepConns"`
	// TestMode: "" | noconnect | connect. An in-process test-mode server (ServeTestConfig) of this protocol
	// whose context is cancelled after no host ever connected / after one reattached client used it
	TestMode string `json:"testMode,omitempty"` // brokered connections the host dialled are still open when Kill is called
}

type C18Obs struct {
	SetupErr      string   `json:"setupErr"`
	StepErrs      []string `json:"stepErrs"`
	KillReturned  bool     `json:"killReturned"`
	Marker        bool     `json:"marker"` // the plugin finished its cleanup (graceful exit)
	PluginDirLeft []string `json:"pluginDirLeft"`
	HostDirLeft   []string `json:"hostDirLeft"`
	HostTmpLeft   []string `json:"hostTmpLeft"` // plugin* sockets that appeared in the host's own TMPDIR during the case and are still there
	GoBefore      int      `json:"goBefore"`    // goroutines with go-plugin frames before the case
	GoAfter       int      `json:"goAfter"`     // ... after Kill, polled up to 10 s
	GoWaitMs      int64    `json:"goWaitMs"`
	GoSample      string   `json:"goSample"`
	TotalBefore   int      `json:"totalBefore"`
	TotalAfter    int      `json:"totalAfter"`
	CloseChMs     int64    `json:"closeChMs,omitempty"` // test mode: CloseCh closed this long after the cancel (-1: not within 40 s)
}
