package main

import (
	"fmt"
	"math/rand"
	"strings"
	"time"

	"verif/spec"
)

var c04Behaviours = []string{"exit-now", "exit-200", "exit-600", "exit-1000", "busy-exit-1200", "nolisten", "never", "never-chatty", "busy", "frozen", "crashed", "failed-handshake", "start-timeout-partial-line"}

func c04Gen(r *rand.Rand, tier string) []spec.Case {
	var out []spec.Case
	add := func(p spec.C04Case) {
		kind := p.Behaviour + "/" + p.Pattern
		if p.Pattern == "cleanup" {
			kind = "solo:cleanup"
		}
		out = append(out, spec.Case{Kind: kind, P: spec.MustJSON(p)})
	}
	protos := []string{"netrpc", "grpc", "grpcmux"}
	launches := []string{"cmd", "runner", "reattach"}
	patterns := []string{"single", "sequential", "concurrent"}
	reps := 1
	if tier == "thorough" {
		reps = 3 // the product three times: schedules differ
	}
	for rep := 0; rep < reps; rep++ {
		for _, b := range c04Behaviours {
			for _, pr := range protos {
				for _, la := range launches {
					if la == "reattach" && (pr == "grpcmux" || b == "failed-handshake" || b == "start-timeout-partial-line" || b == "nolisten") {
						continue // multiplexing does not support reattach; nothing to reattach to
					}
					if b == "frozen" && pr != "grpc" && tier != "thorough" {
						continue // 30+10 s yamux keep-alive: thorough tier only
					}
					for _, pa := range patterns {
						always := (pa == "single" && la == "cmd") ||
							// reattached clients have no process handle to wait on: the force-kill path always present
							(la == "reattach" && pa == "single" && (b == "never" || b == "frozen" || b == "busy"))
						if tier != "thorough" && r.Intn(3) != 0 && !always {
							continue // quick: every (behaviour, proto) single/cmd cell + a third of the rest
						}
						if rep > 0 && b == "frozen" && pr != "grpc" {
							continue // the 45 s cases once only
						}
						add(spec.C04Case{Behaviour: b, Proto: pr, Launch: la, Pattern: pa})
					}
				}
			}
		}
	}
	// a custom runner whose Kill honours the context it is given (a runner talking to a container runtime): an
	// already-ended context aborts the kill. Whatever context Kill hands it must still be alive when it matters
	for rep := 0; rep < reps; rep++ {
		for _, b := range []string{"never", "busy", "exit-600", "crashed", "failed-handshake", "nolisten"} {
			for _, pr := range protos {
				for _, pa := range patterns {
					if tier != "thorough" && pa != "single" && r.Intn(3) != 0 {
						continue
					}
					add(spec.C04Case{Behaviour: b, Proto: pr, Launch: "runner-ctx", Pattern: pa})
				}
			}
		}
	}
	// CleanupClients over n managed clients in mixed states
	ncl := 6
	if tier == "thorough" {
		ncl = 30
	}
	mixed := []string{"exit-now", "exit-200", "exit-600", "never", "busy", "crashed", "failed-handshake", "start-timeout-partial-line"}
	for i := 0; i < ncl; i++ {
		n := []int{1, 3, 6}[i%3]
		var bs []string
		for j := 0; j < n; j++ {
			bs = append(bs, pick(r, mixed))
		}
		pr := pick(r, protos)
		la := pick(r, []string{"cmd", "runner"})
		var pk []bool
		if i%2 == 1 {
			// some of the managed clients had Kill called on them before they were started
			for j := 0; j < n; j++ {
				pk = append(pk, j == 0 || r.Intn(2) == 0)
			}
		}
		add(spec.C04Case{Pattern: "cleanup", Proto: pr, Launch: la, Behaviours: bs, PreKill: pk, PreCleanup: i%3 == 2, DoubleCleanup: i%2 == 0})
	}
	return out
}

func c04Judge(c spec.Case, evs []spec.Event, d *Death) CaseResult {
	var p spec.C04Case
	jsonUnmarshal(c.P, &p)
	if d != nil {
		return deathResult(d, "C04")
	}
	var o spec.C04Obs
	e := findEv(evs, "ret", "Kill")
	if e == nil {
		e = findEv(evs, "ret", "CleanupClients")
	}
	if !decodeD(e, &o) || len(o.Clients) == 0 {
		return CaseResult{Verdict: "inconclusive", Inconcl: "no observation"}
	}
	res := CaseResult{Verdict: "held", Counters: map[string]int{}}
	res.Class = fmt.Sprintf("%s|%s|%s|%s", p.Behaviour, p.Proto, p.Launch, p.Pattern)
	if p.Pattern == "cleanup" {
		res.Class = fmt.Sprintf("cleanup n=%d|%s|%s|%s", len(p.Behaviours), p.Proto, p.Launch, strings.Join(p.Behaviours, ","))
		if len(p.PreKill) > 0 {
			res.Class += fmt.Sprintf("|killed-before-start=%v", p.PreKill)
		}
		res.Class += fmt.Sprintf("|precleanup=%v|double=%v", p.PreCleanup, p.DoubleCleanup)
	}
	res.Sample = map[string]any{"case": p, "observed": o.Clients}
	viol := func(key, msg string) {
		res.Verdict = "violated"
		res.Violations = append(res.Violations, Violation{Key: "C04:" + key, Msg: fmt.Sprintf("%s [behaviour=%s proto=%s launch=%s pattern=%s]", msg, p.Behaviour, p.Proto, p.Launch, p.Pattern)})
	}
	for _, cl := range o.Clients {
		b := cl.Behaviour
		if cl.SetupErr != "" {
			return CaseResult{Verdict: "inconclusive", Inconcl: "setup: " + cl.SetupErr, Class: res.Class}
		}
		res.Counters["kills"]++
		if cl.Panic != "" {
			viol("panic", fmt.Sprintf("Kill panicked: %s", cl.Panic))
		}
		if !cl.KillReturned {
			k := "kill-hung:" + b + "/" + p.Proto
			viol(k, fmt.Sprintf("Kill of a %s plugin had not returned after %d ms (state before %s)\n%s", b, cl.KillMs, cl.StateBefore, cl.Dump))
			continue
		}
		if cl.EarlyReturn != "" {
			viol("kill-returned-early:"+p.Pattern, cl.EarlyReturn+" (every Kill call must only return once the plugin has exited)")
		}
		if cl.StateAfter != "gone" {
			pre := ""
			if cl.PreKill {
				pre = "; Kill had been called on this client once before its Start"
			}
			viol("process-survives:"+b, fmt.Sprintf("after Kill returned, pid %d is in state %q (must have exited and been reaped)%s", cl.Pid, cl.StateAfter, pre))
		}
		if !cl.Exited {
			viol("exited-false:"+b, "after Kill returned, Exited() is false")
		}
		// (busy-exit-1200: a call that ignores cancellation is in flight when Kill is called, and the plugin
		// needs 1.2 s of cleanup once asked to stop: still well inside the grace period)
		graceful := b == "exit-now" || b == "exit-200" || b == "exit-600" || b == "exit-1000" || b == "busy-exit-1200"
		// (two overlapping CleanupClients calls are concurrent Kill calls: see the assumptions)
		if graceful && (p.Pattern == "single" || p.Pattern == "sequential" || p.Pattern == "cleanup") && !p.DoubleCleanup {
			if !cl.Marker {
				viol("force-killed-inside-grace:"+b, fmt.Sprintf("the plugin exits by itself (%s) well inside the 2 s grace period but did not get to finish its cleanup (no marker): it was force-killed; Kill took %d ms", b, cl.KillMs))
			} else {
				res.Counters["graceful_with_marker"]++
			}
		}
		if (b == "never" || b == "never-chatty" || b == "frozen") && cl.Marker {
			viol("marker-unexpected", "a plugin that never finishes its cleanup has a cleanup marker (harness error?)")
		}
		nominal := int64(4000)
		if b == "frozen" && p.Proto != "grpc" {
			nominal = 47000
		} else if b == "frozen" {
			nominal = 7000
		}
		if cl.KillMs > nominal {
			res.Slow = fmt.Sprintf("Kill(%s/%s) took %d ms", b, p.Proto, cl.KillMs)
		}
	}
	for i, st := range o.SecondReturnStates {
		if st != "gone" && st != "Z" && st != "nopid" && i < len(o.Clients) && o.Clients[i].SetupErr == "" {
			viol("second-cleanup-returned-early", fmt.Sprintf("a second CleanupClients call (issued 150 ms after the first, which was still at work) returned while the managed %s plugin pid %d was in state %q", o.Clients[i].Behaviour, o.Clients[i].Pid, st))
		}
	}
	if p.DoubleCleanup {
		res.Counters["overlapping_cleanup_rounds"]++
	}
	if p.Pattern == "cleanup" && o.KilledFlag != 1 {
		viol("killed-flag", "plugin.Killed is not 1 after CleanupClients")
	}
	return res
}

func init() {
	register(&Prop{
		ID: "C04", Level: "exploration", Race: true, TestName: "TestC04",
		Gen: c04Gen, Batch: 16, Children: 6, PerCase: 6 * time.Second, Base: 240 * time.Second,
		Judge: c04Judge, Finish: func(r *Run) { r.raceSummary("C04") },
		Rule: "cases = plugin shutdown behaviour (exits at once / 200, 600, 1000 ms after the shutdown request / 1200 ms after it with a call that ignores cancellation in flight / never / never, while logging a line to stderr every 250 ms / alive with nothing listening at the announced address (Client() fails first) / busy handler / SIGSTOPped, state T awaited / already SIGKILLed / failed handshake) x protocol (net/rpc, gRPC, gRPC+mux) x launch (Cmd, custom runner around a real process, the same runner with a Kill that honours its context, reattach) x call pattern (one Kill, three sequential, four concurrent, CleanupClients over 1/3/6 managed clients in mixed states, own host process each; in half of those rounds some clients had Kill called on them before their Start; in some CleanupClients already ran once before the first client was started, and in half a second CleanupClients call overlaps the first). Real vplugin subprocesses; the plugin writes a marker file after its cleanup, the monitor reads /proc/<pid>/stat, Exited() and the marker after Kill returns. Quick runs every (behaviour, protocol) cell once plus a seeded third of the remaining product; frozen net/rpc and mux (45 s keep-alive bound) only in thorough. Class = behaviour|protocol|launch|pattern",
		Assumptions: []string{
			"delays inside the grace period are 200/600/1000 ms; the ambiguous band around 2 s is never generated",
			"the 'allowed to finish its cleanup' clause is judged for single, sequential and CleanupClients patterns; with concurrent Kill calls (also those of two overlapping CleanupClients calls) the statement only promises no panic and no hang",
			"hang threshold H = max(4N, N+15 s) with N = 3 s (5 s frozen gRPC, 45 s frozen net/rpc / mux)",
		},
	})
}
