package main

import (
	"bytes"
	"encoding/json"
	"fmt"
	"math/rand"
	"sort"
	"strings"
	"time"

	"verif/spec"
)

// ---- reference model ----

type c10Line struct {
	raw     []byte // without the newline
	hasNL   bool
	long    bool // does not fit the log buffer: only the concatenation is judged
	kind    string
	level   string   // expected level for strict kinds
	msg     string   // expected message for strict kinds
	kv      []string // expected key=json pairs (without timestamp)
	lenient bool
	altMsg  string // lenient: message may also be this (@message)
	altLvl  string // lenient: level may also be this
	altLvl2 string
}

var c10Levels = map[string]bool{"trace": true, "debug": true, "info": true, "warn": true, "error": true}

func effBuf(b int) int {
	if b == 0 {
		return 64 * 1024
	}
	if b < 16 {
		return 16
	}
	return b
}

func stripCR(b []byte) []byte {
	if len(b) > 0 && b[len(b)-1] == '\r' {
		return b[:len(b)-1]
	}
	return b
}

// c10Model splits the stderr bytes into lines and classifies each one. inPanic
// is threaded through in order.
func c10Model(stderr []byte, bufSize int) []c10Line {
	B := effBuf(bufSize)
	var lines []c10Line
	rest := stderr
	for len(rest) > 0 {
		var l c10Line
		i := bytes.IndexByte(rest, '\n')
		if i < 0 {
			l.raw, rest = rest, nil
		} else {
			l.raw, l.hasNL, rest = rest[:i], true, rest[i+1:]
		}
		// a line "fits" if line plus its terminator is comfortably inside the buffer
		l.long = len(l.raw)+2 >= B
		lines = append(lines, l)
	}
	// inPanic: 0 = no panic trace in progress, 1 = yes, 2 = unknown (a line whose
	// effect on the trace state the statement leaves open came in between)
	inPanic := 0
	for i := range lines {
		l := &lines[i]
		if l.long {
			l.kind = "long"
			// Pieces of a line that does not fit do not touch the panic-trace
			// state. A line within a byte or two of the buffer size may or may not
			// have been seen as one complete line, so after such a line the state
			// is unknown whenever a complete reading could have changed it.
			if len(l.raw) <= B {
				if inPanic == 1 || strings.HasPrefix(string(l.raw), "panic:") {
					inPanic = 2
				}
			}
			continue
		}
		body := l.raw
		if l.hasNL {
			body = stripCR(l.raw)
		}
		text := string(body)
		plain := func() {
			l.msg = text
			switch {
			case strings.HasPrefix(text, "[TRACE]"):
				l.kind, l.level, inPanic = "prefix", "trace", 0
			case strings.HasPrefix(text, "[DEBUG]"):
				l.kind, l.level, inPanic = "prefix", "debug", 0
			case strings.HasPrefix(text, "[INFO]"):
				l.kind, l.level, inPanic = "prefix", "info", 0
			case strings.HasPrefix(text, "[WARN]"):
				l.kind, l.level, inPanic = "prefix", "warn", 0
			case strings.HasPrefix(text, "[ERROR]"):
				l.kind, l.level, inPanic = "prefix", "error", 0
			case strings.HasPrefix(text, "panic:"):
				l.kind, l.level, inPanic = "panic-start", "error", 1
			default:
				switch inPanic {
				case 1:
					l.kind, l.level = "panic-trace", "error"
				case 2:
					l.kind, l.level, l.lenient, l.altLvl = "text-after-ambiguous", "debug", true, "error"
				default:
					l.kind, l.level = "text", "debug"
				}
			}
		}
		var raw map[string]json.RawMessage
		dec := json.NewDecoder(bytes.NewReader(body))
		if err := dec.Decode(&raw); err != nil || dec.More() || raw == nil {
			// not a JSON object (includes non-object JSON such as 123, "s", [1], null)
			var any interface{}
			if json.Unmarshal(body, &any) == nil {
				// valid non-object JSON: lenient (debug with the line; a panic
				// trace in progress may make it error)
				was := inPanic
				plain()
				if l.kind == "text" || l.kind == "panic-trace" || l.kind == "text-after-ambiguous" {
					l.kind, l.lenient, l.level = "json-nonobject", true, "debug"
					if was != 0 {
						l.altLvl, inPanic = "error", 2
					}
				}
				continue
			}
			plain()
			continue
		}
		// a JSON object
		str := func(k string) (string, bool, bool) { // value, present, isString
			v, ok := raw[k]
			if !ok {
				return "", false, false
			}
			var s string
			if json.Unmarshal(v, &s) != nil || bytes.Equal(bytes.TrimSpace(v), []byte("null")) {
				return "", true, false
			}
			return s, true, true
		}
		msg, mp, ms := str("@message")
		lvl, lp, ls := str("@level")
		ts, tp, tsS := str("@timestamp")
		tsOK := true
		if tp {
			if !tsS {
				tsOK = false
			} else if _, err := time.Parse("2006-01-02T15:04:05.000000Z07:00", ts); err != nil {
				tsOK = false
			}
		}
		wellTyped := (!mp || ms) && (!lp || ls) && tsOK
		dup := hasDupKeys(body)
		switch {
		case !wellTyped || dup:
			// wrong field types / unparsable timestamp: no crash, one record,
			// debug (or error inside a panic trace, or the folded level), message
			// the line or its @message
			l.kind, l.lenient = "json-illtyped", true
			l.msg, l.altMsg = text, msg
			l.level = "debug"
			if ls && c10Levels[strings.ToLower(strings.TrimSpace(lvl))] {
				l.altLvl = strings.ToLower(strings.TrimSpace(lvl))
			}
			if inPanic != 0 {
				l.altLvl2, inPanic = "error", 2
			}
		case lp && c10Levels[lvl]:
			l.kind, l.level, l.msg = "hclog", lvl, msg
			for k, v := range raw {
				if k == "@message" || k == "@level" || k == "@timestamp" {
					continue
				}
				var x interface{}
				json.Unmarshal(v, &x)
				nb, _ := json.Marshal(x)
				l.kv = append(l.kv, k+"="+string(nb))
			}
			sort.Strings(l.kv)
			inPanic = 0
		case lp && c10Levels[strings.ToLower(strings.TrimSpace(lvl))]:
			l.kind, l.lenient = "json-foldedlevel", true
			l.msg, l.altMsg, l.level, l.altLvl = text, msg, "debug", strings.ToLower(strings.TrimSpace(lvl))
			if inPanic != 0 {
				l.altLvl2, inPanic = "error", 2
			}
		default:
			// object without a usable level: verbatim at debug
			l.kind, l.level, l.msg = "json-nolevel", "debug", text
			l.lenient = true // a panic trace in progress may be reset or not
			if inPanic != 0 {
				l.altLvl2, inPanic = "error", 2
			}
		}
	}
	return lines
}

func hasDupKeys(b []byte) bool {
	dec := json.NewDecoder(bytes.NewReader(b))
	t, err := dec.Token()
	if err != nil || t != json.Delim('{') {
		return false
	}
	seen := map[string]bool{}
	depth := 0
	expectKey := true
	for dec.More() || depth > 0 {
		t, err := dec.Token()
		if err != nil {
			return false
		}
		switch v := t.(type) {
		case json.Delim:
			if v == '{' || v == '[' {
				depth++
			} else {
				depth--
				if depth == 0 {
					expectKey = true
				}
			}
		case string:
			if depth == 0 && expectKey {
				if seen[v] {
					return true
				}
				seen[v] = true
				expectKey = false
				continue
			}
			if depth == 0 {
				expectKey = true
			}
		default:
			if depth == 0 {
				expectKey = true
			}
		}
	}
	return false
}

// ---- oracle ----

func c10Judge(c spec.Case, evs []spec.Event, d *Death) CaseResult {
	var p spec.C10Case
	jsonUnmarshal(c.P, &p)
	lines := c10Model(p.Stderr, p.BufSize)
	kinds := map[string]bool{}
	for _, l := range lines {
		kinds[l.kind] = true
	}
	var ks []string
	for k := range kinds {
		ks = append(ks, k)
	}
	sort.Strings(ks)
	sample := map[string]any{"stderr": trunc(string(p.Stderr), 160), "stderr_len": len(p.Stderr), "stdout_len": len(p.Stdout) * max(1, p.StdoutRep), "buf": effBuf(p.BufSize), "line_kinds": ks}
	res := CaseResult{Verdict: "held", Counters: map[string]int{}, Sample: sample}
	res.Class = fmt.Sprintf("kinds=%s buf=%d out=%s real=%v", strings.Join(ks, ","), effBuf(p.BufSize), sizeClass(len(p.Stdout)*max(1, p.StdoutRep), maxLine(p.Stdout)), p.Real)
	viol := func(key, msg string) {
		res.Verdict = "violated"
		res.Violations = append(res.Violations, Violation{Key: "C10:" + key, Msg: msg})
	}
	if d != nil {
		key := "host-died"
		switch {
		case strings.Contains(d.Stderr, "parseJSON") && strings.Contains(d.Stderr, "interface conversion"):
			key = "host-died:parseJSON-type-assertion"
		case strings.HasPrefix(d.ExitErr, "watchdog"):
			key = "host-hung"
		case strings.HasPrefix(d.ExitErr, "start:") || strings.HasPrefix(d.ExitErr, "child ended without"):
			return CaseResult{Verdict: "inconclusive", Inconcl: d.ExitErr + d.Stderr}
		}
		viol(key, fmt.Sprintf("host process died on stderr=%q: %s\n%s", trunc(string(p.Stderr), 300), d.ExitErr, trunc(d.Stderr, 2500)))
		res.Class += " died"
		return res
	}
	var o spec.C10Obs
	if !decodeD(findEv(evs, "ret", "Start"), &o) {
		return CaseResult{Verdict: "inconclusive", Inconcl: "no return event"}
	}
	if o.StartErr != "" {
		return CaseResult{Verdict: "inconclusive", Inconcl: "Start failed: " + o.StartErr}
	}
	res.Counters["stderr_lines"] += len(lines)
	res.Counters["records"] += len(o.Recs)
	res.Counters["stdout_bytes"] += int(o.OutWritten)
	if !o.OutWriterDone {
		key := "stdout-stall"
		if maxLine(p.Stdout) >= 64*1024 {
			key = "stdout-stall:line-over-64KiB"
		}
		viol(key, fmt.Sprintf("plugin blocked writing stdout: %d of %d bytes accepted after 20s (longest line %d bytes)\n%s", o.OutWritten, len(p.Stdout)*max(1, p.StdoutRep), maxLine(p.Stdout), trunc(o.Dump, 1500)))
	}
	if !o.ErrWriterDone {
		viol("stderr-stall", "plugin blocked writing stderr after 20s")
	}
	if !o.KillReturned {
		viol("kill-hang", "Kill did not return within 30s")
	}
	if !o.ErrWriterDone {
		return res
	}
	// 1. stderr copy: every line, unchanged, in order
	cp := o.Copy
	pos := 0
	for i, l := range lines {
		alts := [][]byte{l.raw}
		if s := stripCR(l.raw); len(s) != len(l.raw) {
			alts = append(alts, s)
		}
		matched := false
		for _, a := range alts {
			if bytes.HasPrefix(cp[pos:], a) {
				n := pos + len(a)
				if n < len(cp) && cp[n] == '\n' {
					pos, matched = n+1, true
					break
				}
				if !l.hasNL && n == len(cp) {
					pos, matched = n, true
					break
				}
			}
		}
		if !matched {
			viol("stderr-copy", fmt.Sprintf("stderr line %d (%d bytes, kind %s) not copied unchanged: want %q at offset %d, copy has %q (copy %d bytes, input %d bytes)",
				i, len(l.raw), l.kind, trunc(string(l.raw), 80), pos, trunc(string(cp[min(pos, len(cp)):]), 80), len(cp), len(p.Stderr)))
			return res
		}
	}
	if pos != len(cp) {
		viol("stderr-copy", fmt.Sprintf("stderr copy has %d extra bytes: %q", len(cp)-pos, trunc(string(cp[pos:]), 80)))
	}
	// 2. log records. A line that does not fit the buffer arrives as >= 1
	// pieces (possibly followed by one empty piece when the newline itself did
	// not fit), so records are aligned to lines by a small backtracking search;
	// the first alignment without violations wins, otherwise the violations of
	// the greedy alignment are reported.
	type vio struct{ key, msg string }
	var match func(i, ri int, skipEmpty bool) (bool, []vio)
	memo := map[[2]int]bool{}
	match = func(i, ri int, greedy bool) (bool, []vio) {
		if i == len(lines) {
			if ri != len(o.Recs) {
				return false, []vio{{"record-extra", fmt.Sprintf("%d log records beyond the %d lines (first extra: %s %q)", len(o.Recs)-ri, len(lines), o.Recs[ri].Level, trunc(string(o.Recs[ri].Msg), 80))}}
			}
			return true, nil
		}
		if bad, seen := memo[[2]int{i, ri}]; seen && bad {
			return false, []vio{{"record-align", "no alignment"}}
		}
		l := lines[i]
		if l.long {
			want := l.raw
			if l.hasNL {
				want = stripCR(l.raw)
			}
			var got []byte
			k := ri
			for k < len(o.Recs) && len(got) < len(want) {
				got = append(got, o.Recs[k].Msg...)
				k++
			}
			if !bytes.Equal(got, want) && !bytes.Equal(got, l.raw) {
				memo[[2]int{i, ri}] = true
				return false, []vio{{"record-long", fmt.Sprintf("line %d (%d bytes >= buffer %d): concatenated record messages differ from the line (got %d bytes from records %d..%d)", i, len(l.raw), effBuf(p.BufSize), len(got), ri, k)}}
			}
			if k < len(o.Recs) && len(o.Recs[k].Msg) == 0 && o.Recs[k].Level == "debug" {
				if ok, _ := match(i+1, k+1, greedy); ok {
					return true, nil
				}
			}
			ok, v := match(i+1, k, greedy)
			if !ok {
				memo[[2]int{i, ri}] = true
			}
			return ok, v
		}
		if ri >= len(o.Recs) {
			return false, []vio{{"record-missing", fmt.Sprintf("line %d %q produced no log record", i, trunc(string(l.raw), 100))}}
		}
		r := o.Recs[ri]
		var vs []vio
		lvOK := r.Level == l.level
		msgOK := string(r.Msg) == l.msg || string(r.Msg) == string(stripCR([]byte(l.msg)))
		if l.lenient {
			lvOK = lvOK || (l.altLvl != "" && r.Level == l.altLvl) || (l.altLvl2 != "" && r.Level == l.altLvl2)
			msgOK = msgOK || string(r.Msg) == l.altMsg || string(r.Msg) == string(l.raw)
		}
		if !lvOK {
			vs = append(vs, vio{"record-level:" + l.kind, fmt.Sprintf("line %d %q (kind %s): level %s, want %s", i, trunc(string(l.raw), 120), l.kind, r.Level, l.level)})
		}
		if !msgOK {
			vs = append(vs, vio{"record-message:" + l.kind, fmt.Sprintf("line %d %q (kind %s): message %q, want %q", i, trunc(string(l.raw), 120), l.kind, trunc(string(r.Msg), 120), trunc(l.msg, 120))})
		}
		if l.kind == "hclog" {
			var got []string
			hasTS := false
			for _, kv := range r.KV {
				if strings.HasPrefix(kv, "timestamp=") {
					hasTS = true
					continue
				}
				got = append(got, kv)
			}
			sort.Strings(got)
			if strings.Join(got, "\x00") != strings.Join(l.kv, "\x00") {
				vs = append(vs, vio{"record-kv", fmt.Sprintf("line %d %q: key/values %v, want %v", i, trunc(string(l.raw), 120), got, l.kv)})
			}
			if !hasTS {
				vs = append(vs, vio{"record-kv", fmt.Sprintf("line %d: no timestamp field", i)})
			}
		}
		ok, rest := match(i+1, ri+1, greedy)
		if len(vs) > 0 {
			memo[[2]int{i, ri}] = true
			return false, append(vs, rest...)
		}
		if !ok {
			memo[[2]int{i, ri}] = true
		}
		return ok, rest
	}
	if ok, vs := match(0, 0, true); !ok {
		for j, v := range vs {
			if j >= 4 {
				break
			}
			viol(v.key, v.msg)
		}
	}
	return res
}

func maxLine(b []byte) int {
	m := 0
	for _, l := range bytes.Split(b, []byte("\n")) {
		if len(l) > m {
			m = len(l)
		}
	}
	return m
}

func sizeClass(total, line int) string {
	c := func(n int) string {
		switch {
		case n == 0:
			return "0"
		case n < 4096:
			return "<4K"
		case n <= 64*1024:
			return "<=64K"
		case n <= 1<<20:
			return "<=1M"
		default:
			return ">1M"
		}
	}
	return c(total) + "/line" + c(line)
}

// ---- generator ----

func c10Text(r *rand.Rand, n int) string {
	const al = "abcdefghijklmnopqrstuvwxyzABCDEFGHIJKLMNOPQRSTUVWXYZ0123456789 _-:=/.{}[]\"\\,"
	b := make([]byte, n)
	for i := range b {
		b[i] = al[r.Intn(len(al))]
	}
	return string(b)
}

func c10LineOf(r *rand.Rand, B int) string {
	ts := `"@timestamp":"2026-10-02T15:04:05.123456Z"`
	if r.Intn(3) == 0 {
		ts = `"@timestamp":"2026-10-02T15:04:05.123456+02:00"`
	}
	lv := pick(r, []string{"trace", "debug", "info", "warn", "error"})
	switch r.Intn(26) {
	case 0:
		return c10Text(r, r.Intn(60))
	case 1:
		return pick(r, []string{"[TRACE]", "[DEBUG]", "[INFO]", "[WARN]", "[ERROR]"}) + " " + c10Text(r, r.Intn(40))
	case 2:
		return pick(r, []string{"[trace] x", "[INFO ] y", " [INFO] lead", "[WARNING] w", "[ERR] e", "INFO: z", "[INFO]", "[ERROR]tight"})
	case 3:
		return "panic: " + c10Text(r, 10) + "\n\ngoroutine 1 [running]:\nmain.main()\n\t/tmp/x.go:12 +0x1d\nexit status 2"
	case 4:
		return "panic: boom\ngoroutine 7 [running]:\n[INFO] back to normal\nplain after"
	case 5:
		return fmt.Sprintf(`{"@level":%q,"@message":%q,%s}`, lv, c10Text(r, r.Intn(30)), ts)
	case 6:
		return fmt.Sprintf(`{"@level":%q,"@message":%q,%s,"k":"v","n":%d,"b":true,"nil":null,"f":1.5,"arr":[1,"two"],"obj":{"a":1}}`, lv, c10Text(r, r.Intn(30)), ts, r.Intn(1000))
	case 7:
		return fmt.Sprintf(`{"@level":%q,"@message":%q}`, lv, c10Text(r, 8)) // no timestamp
	case 8:
		return fmt.Sprintf(`{"@message":%s,"@level":%q,%s}`, pick(r, []string{"1", "true", "null", "[1]", `{"a":1}`, "1.5e3"}), lv, ts)
	case 9:
		return fmt.Sprintf(`{"@message":"m","@level":%s,%s}`, pick(r, []string{"1", "true", "null", "[]", "{}"}), ts)
	case 10:
		return fmt.Sprintf(`{"@message":"m","@level":%q,"@timestamp":%s}`, lv, pick(r, []string{"1", "null", "true", `"yesterday"`, `"2026-10-02 15:04:05"`, `"2026-10-02T15:04:05Z"`, `""`}))
	case 11:
		return fmt.Sprintf(`{"@message":"m","@level":%q,%s}`, pick(r, []string{"fatal", "", "INFO", " warn ", "Error", "none", "notice"}), ts)
	case 12:
		return pick(r, []string{`{"a":1}`, `{}`, `{"@message":"only message"}`, `{"message":"x","level":"info"}`})
	case 13:
		return pick(r, []string{"123", `"just a string"`, "[1,2]", "null", "true", "1.5", "-0", `[{"@message":1}]`})
	case 14:
		return pick(r, []string{`{"@message":"m"`, `{"@level":"info",}`, `{'a':1}`, `{"a":1} trailing`, `{"@message":"a"}{"@message":"b"}`})
	case 15: // arbitrary bytes, no newline
		n := 1 + r.Intn(40)
		b := make([]byte, n)
		for i := range b {
			b[i] = byte(r.Intn(256))
			if b[i] == '\n' {
				b[i] = 0
			}
		}
		return string(b)
	case 16: // around the buffer size (text)
		n := B + pick(r, []int{-4, -3, -2, -1, 0, 1, 2, 3})
		if n < 0 {
			n = 0
		}
		return c10Text(r, n)
	case 17:
		return c10Text(r, pick(r, []int{2 * B, 2*B - 1, 2*B + 1, 3*B + 7}))
	case 18: // JSON padded to around the buffer size
		pad := B + pick(r, []int{-40, -3, 0, 5, 50}) - 60
		if pad < 0 {
			pad = 0
		}
		return fmt.Sprintf(`{"@level":%q,"@message":%q,%s}`, lv, c10Text(r, pad), ts)
	case 19:
		return c10Text(r, r.Intn(20)) + "\r"
	case 20:
		return c10Text(r, 5) + "\r" + c10Text(r, 5)
	case 21: // CR right at the buffer edge
		n := B - pick(r, []int{1, 2, 3})
		if n < 0 {
			n = 0
		}
		return c10Text(r, n) + "\r"
	case 22:
		return ""
	case 23:
		return "[ERROR] " + c10Text(r, B)
	case 24:
		return fmt.Sprintf(`{"@level":"info","@message":"dup","@message":"dup2",%s}`, ts)
	default:
		return fmt.Sprintf(`{"@level":%q,"@message":"%s","@module":"x.y",%s,"k1":"v1"}`, lv, c10Text(r, 5), ts)
	}
}

func c10Gen(r *rand.Rand, tier string) []spec.Case {
	var out []spec.Case
	add := func(kind string, p spec.C10Case) { out = append(out, spec.Case{Kind: kind, P: spec.MustJSON(p)}) }
	bufs := []int{16, 64, 4096, 0, 8, 1, 15}
	n := 700
	if tier == "thorough" {
		n = 60000
	}
	for i := 0; i < n; i++ {
		bs := bufs[i%len(bufs)]
		if bs == 0 && i%3 != 0 {
			bs = 4096 // keep most default-size cases cheap; 64 KiB lines are still covered
		}
		B := effBuf(bs)
		var sb strings.Builder
		nl := 1 + r.Intn(10)
		for j := 0; j < nl; j++ {
			sb.WriteString(c10LineOf(r, B))
			if j < nl-1 || r.Intn(5) != 0 {
				sb.WriteByte('\n')
			}
		}
		p := spec.C10Case{Stderr: []byte(sb.String()), BufSize: bs, Chunk: pick(r, []int{0, 1, 7, 100, 4096})}
		if r.Intn(3) == 0 {
			p.Stdout = []byte(c10Text(r, r.Intn(2000)) + "\n" + c10Text(r, r.Intn(100)))
		}
		if len(p.Stderr) > 20000 && p.Chunk == 1 {
			p.Chunk = 100
		}
		add("stderr", p)
	}
	// single-line cases for every line generator branch with an empty panic state
	for i := 0; i < n/3; i++ {
		bs := bufs[i%3]
		p := spec.C10Case{Stderr: []byte(c10LineOf(r, effBuf(bs)) + "\n"), BufSize: bs}
		add("stderr-one", p)
	}
	// a sample through a real plugin process (kernel pipes, cmdrunner); the input must end with a
	// newline there because the process stays alive (an unterminated tail would still be in flight)
	nreal := 24
	if tier == "thorough" {
		nreal = 600
	}
	for i := 0; i < nreal; i++ {
		bs := []int{64, 4096, 0}[i%3]
		var sb strings.Builder
		for j := 0; j < 1+r.Intn(8); j++ {
			sb.WriteString(c10LineOf(r, effBuf(bs)))
			sb.WriteByte('\n')
		}
		p := spec.C10Case{Stderr: []byte(sb.String()), BufSize: bs, Real: true, Chunk: pick(r, []int{0, 700, 4096})}
		if i%4 == 0 {
			p.Stdout = []byte(c10Text(r, pick(r, []int{10, 5000, 70000, 200000})) + "\n")
			p.StdoutRep = 1 + r.Intn(3)
		}
		add("stderr-real", p)
	}
	// stdout volume / line length after the handshake
	type so struct {
		line, rep int
		nl        bool
	}
	sos := []so{{1, 1, true}, {100, 100, true}, {4096, 64, true}, {65535, 4, true}, {65536, 2, true}, {65537, 2, true}, {70000, 2, true}, {200000, 2, true}, {1 << 20, 2, true},
		{100, 1, false}, {65536, 2, false}, {300000, 1, false}}
	if tier == "thorough" {
		sos = append(sos, so{1000, 32 * 1024, true}, so{1 << 20, 32, true}, so{64*1024 - 1, 64, true}, so{1 << 22, 2, false})
	}
	// over-long stdout lines that are not ASCII: multi-byte UTF-8 sequences (2, 3, 4 bytes) shifted by 0-3
	// leading bytes so that some sequence straddles every possible cut, and newline-free binary data
	for shift := 0; shift < 4; shift++ {
		for _, ru := range []string{"é", "€", "😀"} {
			line := strings.Repeat("x", shift) + strings.Repeat(ru, (200000+r.Intn(1000))/len(ru)) + "\n"
			add("stdout", spec.C10Case{Stderr: []byte("[INFO] alongside stdout\n"), Stdout: []byte(line), StdoutRep: 3, Chunk: pick(r, []int{0, 4096, 65536})})
		}
	}
	for k := 0; k < 4; k++ {
		b := spec.PRBytes(fmt.Sprint("c10bin", k, r.Intn(1000)), 150000+r.Intn(100000))
		for i := range b {
			if b[i] == '\n' {
				b[i] = 0xc3
			}
		}
		add("stdout", spec.C10Case{Stderr: []byte("[INFO] alongside stdout\n"), Stdout: append(b, '\n'), StdoutRep: 3, Chunk: pick(r, []int{0, 4096, 65536})})
	}
	for _, s := range sos {
		line := c10Text(r, s.line)
		if s.nl {
			line += "\n"
		}
		add("stdout", spec.C10Case{Stderr: []byte("[INFO] alongside stdout\n"), Stdout: []byte(line), StdoutRep: s.rep, Chunk: pick(r, []int{0, 4096, 65536})})
	}
	return out
}

func c10Finish(r *Run) {
	if len(r.Cases) > 50 && (r.Counters["records"] < 100 || r.Counters["stderr_lines"] < 100) {
		r.Inconcl = append(r.Inconcl, fmt.Sprintf("too little observed: %v", r.Counters))
	}
}

func init() {
	register(&Prop{
		ID: "C10", Level: "exploration", Race: true, TestName: "TestC10",
		Gen: c10Gen, Batch: 150, Children: 8, PerCase: 2 * time.Second, Base: 90 * time.Second,
		Judge: c10Judge, Finish: c10Finish,
		Rule: "cases = (stderr byte sequence of 1-10 lines drawn from 26 line generators [text, level prefixes, near-miss prefixes, panic traces, hclog JSON, ill-typed JSON, non-object JSON, broken JSON, arbitrary bytes, lengths around/over the buffer, CR/CRLF placements, duplicates], write chunking, log buffer size in {16,64,4096,65536}) plus stdout volumes/line lengths after the handshake (ASCII, multi-byte UTF-8 shifted across every cut position, newline-free binary); a behaviour class = (set of line kinds in the case, buffer size, stdout size class); all non-trivial",
		Assumptions: []string{
			"plugin modelled by an in-process runner whose stdout/stderr are unbuffered io.Pipes: 'never blocked by back-pressure' = the writer goroutine finished all writes (20 s watchdog)",
			"a trailing CR before LF may be dropped from the copy; an unterminated last line may gain a newline",
			"lines that do not fit the log buffer are judged only on copy fidelity and on the concatenation of their record messages",
			"JSON that is not a well-typed hclog record (wrong field types, unparsable timestamp, duplicate keys, non-canonical level spelling, no level, non-object) is judged leniently: one record, level debug / error-in-panic-trace / the folded level, message = line or @message",
		},
	})
}
