package main

import (
	"fmt"
	"math/rand"
	"strings"
	"time"

	"verif/spec"
)

var c05Causes = []string{"field-core", "field-version", "field-network", "field-address", "field-protocol", "field-cert", "field-mux-absent", "field-mux-false",
	"short", "garbage", "bad-then-more", "bad-then-partial", "silence", "partial-line", "exit-before-output", "exit-after-garbage", "stdout-closed-alive", "partial-then-close",
	"crash-cookieOK", "crash-listenerReady"}

func c05Gen(r *rand.Rand, tier string) []spec.Case {
	var out []spec.Case
	reps := 1
	if tier == "thorough" {
		reps = 10
	}
	for rep := 0; rep < reps; rep++ {
		for _, cause := range c05Causes {
			for _, launch := range []string{"cmd", "runner", "scripted", "runner-ctx", "runner-ctx-slow"} {
				if launch == "scripted" && strings.HasPrefix(cause, "crash-") {
					continue
				}
				p := spec.C05Case{Cause: cause, Launch: launch, TimeoutMs: 600}
				if rep > 0 {
					p.JitterMs = r.Intn(150)
				}
				if launch == "runner-ctx-slow" && !strings.HasPrefix(cause, "crash-") {
					// the failure is detected late in the start window and the runner's Kill takes
					// longer than what is left of it
					p.JitterMs = 350 + r.Intn(100)
				}
				out = append(out, spec.Case{Kind: cause, P: spec.MustJSON(p)})
			}
		}
	}
	// start timeouts so short that they expire while the launch itself (fork/exec) is still in progress
	for rep := 0; rep < reps; rep++ {
		for _, us := range []int{1, 20, 100, 300, 1000, 3000} {
			for _, launch := range []string{"cmd", "cmd", "runner"} {
				out = append(out, spec.Case{Kind: "tiny-timeout", P: spec.MustJSON(spec.C05Case{Cause: "silence", Launch: launch, TimeoutMs: 600, TimeoutUs: us})})
			}
		}
	}
	// a custom runner whose stdout reader breaks (a log stream that fails with an error other than EOF)
	for _, cause := range []string{"silence", "garbage", "field-version"} {
		out = append(out, spec.Case{Kind: cause, P: spec.MustJSON(spec.C05Case{Cause: cause, Launch: "runner-stdout-err", TimeoutMs: 600})})
	}
	return out
}

func c05Judge(c spec.Case, evs []spec.Event, d *Death) CaseResult {
	var p spec.C05Case
	jsonUnmarshal(c.P, &p)
	if d != nil {
		return deathResult(d, "C05")
	}
	var o spec.C05Obs
	if !decodeD(findEv(evs, "ret", "Start"), &o) {
		return CaseResult{Verdict: "inconclusive", Inconcl: "no observation"}
	}
	res := CaseResult{Verdict: "held", Counters: map[string]int{}}
	res.Class = p.Cause + "/" + p.Launch
	res.Sample = map[string]any{"cause": p.Cause, "launch": p.Launch, "start_err": trunc(o.StartErr, 100), "state_at_return": o.StateAtReturn, "state_soon": o.StateSoon, "soon_ms": o.SoonMs, "kill_ms": o.KillMs, "state_after_kill": o.StateAfter}
	viol := func(key, msg string) {
		res.Verdict = "violated"
		res.Violations = append(res.Violations, Violation{Key: "C05:" + key, Msg: fmt.Sprintf("%s [cause=%s launch=%s] obs=%+v", msg, p.Cause, p.Launch, o)})
	}
	if !o.StartReturned {
		viol("start-hung", "Start did not return\n"+o.Dump)
		return res
	}
	if o.StartErr == "" {
		// this cause must be rejected by every reading of C01; a success here is C01's business
		return CaseResult{Verdict: "inconclusive", Inconcl: fmt.Sprintf("Start unexpectedly succeeded for cause %s (C01 decides that)", p.Cause), Class: res.Class}
	}
	if p.TimeoutUs > 0 {
		res.Class = fmt.Sprintf("tiny-timeout-%dus/%s", p.TimeoutUs, p.Launch)
	}
	if p.TimeoutUs > 0 && o.Pid == 0 {
		// no process of this case was ever seen alive in the 1.5 s after Start returned, and none exists now:
		// whatever was launched is gone
		res.Counters["tiny_timeout_nothing_left"]++
		res.Counters["failed_starts"]++
		return res
	}
	if p.Launch != "scripted" && o.Pid == 0 {
		return CaseResult{Verdict: "inconclusive", Inconcl: "plugin never wrote its pid file", Class: res.Class}
	}
	res.Counters["failed_starts"]++
	term := func(s string) bool { return s == "gone" || s == "Z" || s == "X" }
	if term(o.StateAtReturn) {
		res.Counters["terminated_at_return"]++
	}
	if o.StateSoon == "nopid" || o.StateSoon == "?" {
		return CaseResult{Verdict: "inconclusive", Inconcl: fmt.Sprintf("the state of the launched process could not be read (state %s, pid %d)", o.StateSoon, o.Pid), Class: res.Class}
	}
	if !term(o.StateSoon) {
		viol("process-left-behind", fmt.Sprintf("Start returned %q but the launched process is still alive (state %s) %d ms later", trunc(o.StartErr, 80), o.StateSoon, o.SoonMs))
	}
	if !o.KillReturned {
		viol("kill-hung", "a Kill after the failed Start did not return within 18 s\n"+o.Dump)
	} else if o.KillMs > 6000 {
		res.Slow = fmt.Sprintf("Kill after failed start took %d ms", o.KillMs)
	}
	if o.KillReturned && p.Launch != "scripted" && o.StateAfter != "gone" {
		viol("not-reaped-after-kill", fmt.Sprintf("after Kill returned the process is in state %s (not reaped)", o.StateAfter))
	}
	if o.KillReturned {
		for _, f := range o.HostDirLeft {
			if strings.Contains(f, "plugin-dir") {
				viol("socket-dir-left", fmt.Sprintf("temporary socket directory still exists after Kill: %v", o.HostDirLeft))
				break
			}
		}
	}
	return res
}

func init() {
	register(&Prop{
		ID: "C05", Level: "fault_enumeration", Race: true, TestName: "TestC05",
		Gen: c05Gen, Batch: 20, Children: 3, PerCase: 3 * time.Second, Base: 90 * time.Second,
		Judge:       c05Judge,
		Rule:        "enumerated failure causes (each handshake field invalid in turn, short/garbage line, bad line followed by more output, silence until timeout, partial line without newline, exit before output, stdout closed while alive, crash at two hook points inside Serve, start timeouts of 1 ns - 3 ms that expire while the launch itself is in progress) x launch method (Cmd real process, custom runner around a real process, the same with a Kill that honours its context (aborts when it is done) without and with a 400 ms grace period and the failure placed late in the start window, scripted in-process runner); thorough repeats each 10x with seeded output delay. Observed: /proc state of the launched pid at Start-return and while polling up to 5 s, runner Kill calls, Kill duration, reaping, temp dir listing. Class = cause/launch",
		Assumptions: []string{"'shortly after' = within 5 s", "only causes that every reading of C01 rejects are used", "Kill counts as hung after 18 s (nominal 2-3 s)"},
	})
}
