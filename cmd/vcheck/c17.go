package main

import (
	"encoding/pem"
	"fmt"
	"math/rand"
	"sort"
	"strconv"
	"strings"
	"time"

	"verif/spec"
)

var c17AmbientCert = "-----BEGIN CERTIFICATE-----\n" + wrap64(c01CertStd()) + "-----END CERTIFICATE-----\n"

func c01CertStd() string {
	// re-encode the raw-std base64 DER of c01Cert as padded std base64
	s := c01Cert
	for len(s)%4 != 0 {
		s += "="
	}
	return s
}

func wrap64(s string) string {
	var b strings.Builder
	for len(s) > 64 {
		b.WriteString(s[:64] + "\n")
		s = s[64:]
	}
	b.WriteString(s + "\n")
	return b.String()
}

func c17Ambients() map[string][]string {
	return map[string][]string{
		"clean":   nil,
		"markers": {"VERIF_HOST_MARKER_A=alpha", "VERIF_HOST_MARKER_B=beta gamma"},
		"nested-plugin": {
			"PLUGIN_CLIENT_CERT=" + c17AmbientCert, "PLUGIN_MULTIPLEX_GRPC=true", "PLUGIN_PROTOCOL_VERSIONS=9",
			"PLUGIN_MIN_PORT=1", "PLUGIN_MAX_PORT=2", "OTHER_APP_COOKIE=zzz", spec.CookieKey + "=some-other-value",
			"VERIF_HOST_MARKER_A=alpha",
		},
		"nested-mux-only":  {"PLUGIN_MULTIPLEX_GRPC=true", "VERIF_HOST_MARKER_A=alpha"},
		"nested-cert-only": {"PLUGIN_CLIENT_CERT=" + c17AmbientCert, "VERIF_HOST_MARKER_A=alpha"},
		"nested-mux-false": {"PLUGIN_MULTIPLEX_GRPC=false"},
		"nested-ports-sock": {"PLUGIN_MIN_PORT=1", "PLUGIN_MAX_PORT=2", "PLUGIN_UNIX_SOCKET_GROUP=verif-no-such-group", "PLUGIN_PROTOCOL_VERSIONS=9",
			spec.CookieKey + "=some-other-value", "VERIF_HOST_MARKER_A=alpha"},
	}
}

func c17Gen(r *rand.Rand, tier string) []spec.Case {
	var out []spec.Case
	add := func(kind string, p spec.C17Case) { out = append(out, spec.Case{Kind: kind, P: spec.MustJSON(p)}) }
	amb := c17Ambients()
	var names []string
	for k := range amb {
		names = append(names, k)
	}
	sort.Strings(names)
	n := 1
	if tier == "thorough" {
		n = 10
	}
	for rep := 0; rep < n; rep++ {
		for _, an := range names {
			for _, launch := range []string{"runner", "cmd"} {
				for _, mtls := range []bool{false, true} {
					for _, mux := range []bool{false, true} {
						for _, skip := range []bool{false, true} {
							p := spec.C17Case{AutoMTLS: mtls, Mux: mux, SkipHostEnv: skip, Launch: launch, Ambient: amb[an], AmbientName: an,
								Sets: pick(r, c01SetsL), Group: r.Intn(2) == 0, TempDir: r.Intn(2) == 0}
							if r.Intn(2) == 0 {
								p.MinPort, p.MaxPort = uint(20000+r.Intn(100)), uint(21000+r.Intn(100))
							}
							if launch == "cmd" && r.Intn(2) == 0 {
								p.UserEnv = []string{"VERIF_USER_VAR=mine"}
							}
							if launch == "runner" && r.Intn(3) == 0 {
								p.RetryStart = true // the first RunnerFunc call fails, the second launch is judged
							}
							add("env", p)
						}
					}
				}
			}
		}
	}
	// two clients created from ONE ClientConfig (one UnixSocketConfig value) through a RunnerFunc and alive at
	// the same time: the socket directory each is given belongs to that client alone
	for rep := 0; rep < 2*n; rep++ {
		for _, grp := range []bool{false, true} {
			add("two-clients", spec.C17Case{Launch: "runner", TempDir: true, Group: grp, TwoClients: true, AmbientName: "clean", Sets: "legacy1", Mux: rep%2 == 1})
			add("two-clients-concurrent", spec.C17Case{Launch: "runner", TempDir: true, Group: grp, TwoClients: true, TwoConcurrent: true, SkipHostEnv: true, AmbientName: "clean", Sets: "legacy1", Mux: rep%2 == 1})
		}
	}
	// entries the user put into Cmd.Env that collide with the control variables (the idiom for SkipHostEnv is
	// to hand the child a filtered copy of the host's environment, which in a nested host carries PLUGIN_*)
	users := map[string][]string{
		"user-nested": {"PLUGIN_CLIENT_CERT=" + c17AmbientCert, "PLUGIN_MULTIPLEX_GRPC=true", "PLUGIN_PROTOCOL_VERSIONS=9", "PLUGIN_MIN_PORT=1", "PLUGIN_MAX_PORT=2",
			spec.CookieKey + "=some-other-value", "VERIF_USER_VAR=mine"},
		"user-mux":  {"PLUGIN_MULTIPLEX_GRPC=true", "VERIF_USER_VAR=mine"},
		"user-cert": {"VERIF_USER_VAR=mine", "PLUGIN_CLIENT_CERT=" + c17AmbientCert},
	}
	for rep := 0; rep < n; rep++ {
		for _, un := range []string{"user-nested", "user-mux", "user-cert"} {
			for _, launch := range []string{"cmd"} { // a RunnerFunc excludes Cmd, so there is no user Cmd.Env there
				for _, mtls := range []bool{false, true} {
					for _, mux := range []bool{false, true} {
						for _, skip := range []bool{false, true} {
							an := pick(r, []string{"clean", "markers", "nested-plugin"})
							add("env", spec.C17Case{AutoMTLS: mtls, Mux: mux, SkipHostEnv: skip, Launch: launch, Ambient: amb[an], AmbientName: an,
								Sets: pick(r, c01SetsL), UserEnv: users[un], UserEnvName: un})
						}
					}
				}
			}
		}
	}
	// Cmd.Env pre-populated with a copy of the host's environment (the usual `append(os.Environ(), "X=y")`):
	// with the host environment inherited as well, every host variable is there twice
	for rep := 0; rep < n; rep++ {
		for _, an := range []string{"nested-plugin", "nested-ports-sock", "markers"} {
			for _, mtls := range []bool{false, true} {
				for _, mux := range []bool{false, true} {
					for _, skip := range []bool{false, true} {
						p := spec.C17Case{AutoMTLS: mtls, Mux: mux, SkipHostEnv: skip, Launch: "cmd", Ambient: amb[an], AmbientName: an,
							Sets: pick(r, c01SetsL), UserEnv: []string{"VERIF_USER_VAR=mine"}, UserEnvName: "user-hostcopy", UserEnvHost: true, Group: r.Intn(2) == 0}
						if r.Intn(2) == 0 {
							p.MinPort, p.MaxPort = uint(20000+r.Intn(100)), uint(21000+r.Intn(100))
						}
						add("env", p)
					}
				}
			}
		}
	}
	for _, un := range []string{"user-nested", "user-mux", "user-cert"} {
		for _, proto := range []string{"netrpc", "grpc"} {
			for _, skip := range []bool{false, true} {
				add("e2e", spec.C17Case{E2E: true, E2EProto: proto, SkipHostEnv: skip, Launch: "cmd", AmbientName: "clean", Sets: pick(r, c01SetsL), UserEnv: users[un], UserEnvName: un})
			}
		}
	}
	// end-to-end: a real plugin launched from a host that carries PLUGIN_* variables
	for _, an := range names {
		if an == "nested-ports-sock" {
			continue // carries a socket group that does not exist; inheritance of an unconfigured group is not judged (see assumptions)
		}
		for _, proto := range []string{"netrpc", "grpc"} {
			for _, mtls := range []bool{false, true} {
				for _, mux := range []bool{false, true} {
					if mux && proto != "grpc" {
						continue
					}
					add("e2e", spec.C17Case{E2E: true, E2EProto: proto, AutoMTLS: mtls, Mux: mux, Launch: "cmd", Ambient: amb[an], AmbientName: an, Sets: pick(r, c01SetsL)})
				}
			}
		}
	}
	return out
}

func effectiveEnv(env []string) map[string]string {
	m := map[string]string{}
	for _, kv := range env {
		k, v, ok := strings.Cut(kv, "=")
		if !ok {
			continue
		}
		m[k] = v // last duplicate wins, as exec resolves it
	}
	return m
}

func c17Judge(c spec.Case, evs []spec.Event, d *Death) CaseResult {
	var p spec.C17Case
	jsonUnmarshal(c.P, &p)
	if d != nil {
		return deathResult(d, "C17")
	}
	var o spec.C17Obs
	if !decodeD(findEv(evs, "ret", "Start"), &o) || !o.Captured {
		return CaseResult{Verdict: "inconclusive", Inconcl: "environment not captured: " + o.StartErr}
	}
	res := CaseResult{Verdict: "held", Counters: map[string]int{}}
	res.Class = fmt.Sprintf("%s ambient=%s user=%s mtls=%v mux=%v skip=%v e2e=%v", p.Launch, p.AmbientName, p.UserEnvName, p.AutoMTLS, p.Mux, p.SkipHostEnv, p.E2E)
	if p.RetryStart {
		res.Class += " second-start-after-runner-error"
		res.Counters["second_launch_envs_judged"]++
	}
	viol := func(key, msg string) {
		res.Verdict = "violated"
		res.Violations = append(res.Violations, Violation{Key: "C17:" + key, Msg: fmt.Sprintf("%s [launch=%s ambient=%s userEnv=%s autoMTLS=%v mux=%v skipHostEnv=%v sets=%s]", msg, p.Launch, p.AmbientName, p.UserEnvName, p.AutoMTLS, p.Mux, p.SkipHostEnv, p.Sets)})
	}
	if p.TwoClients {
		res.Class += " two-clients-one-config"
		res.Counters["two_client_rounds"]++
		res.Sample = map[string]any{"two_clients": true, "runner_dirs": o.TwoTmp, "env_dirs": o.TwoEnvDir, "exist_both_alive": o.ExistBoth, "exist_after_kill_A": o.ExistAfterA, "exist_after_kill_B": o.ExistAfterB, "start_errs": o.TwoStartErr}
		if len(o.TwoTmp) != 2 || len(o.TwoEnvDir) != 2 || len(o.TwoStartErr) != 2 || o.TwoStartErr[0] != "" || o.TwoStartErr[1] != "" {
			return CaseResult{Verdict: "inconclusive", Inconcl: fmt.Sprintf("two-client round did not start: %v %v", o.TwoTmp, o.TwoStartErr), Class: res.Class}
		}
		if p.TwoConcurrent {
			res.Class += " concurrent"
			res.Sample = map[string]any{"two_clients_concurrent": true, "runner_dirs": o.TwoTmp, "launch_dirs": o.TwoLaunchDir, "start_errs": o.TwoStartErr}
			if len(o.TwoLaunchDir) != 2 || len(o.TwoLaunchSame) != 2 {
				return CaseResult{Verdict: "inconclusive", Inconcl: "no launch observation", Class: res.Class}
			}
			for i := 0; i < 2; i++ {
				if o.TwoLaunchDir[i] != o.TwoTmp[i] || !o.TwoLaunchSame[i] {
					viol("launch-env-of-another-client", fmt.Sprintf("client %c: the environment its runner was handed had changed by the time the runner launched from it (another client's Start ran in between): PLUGIN_UNIX_SOCKET_DIR=%q, the runner's directory is %q", 'A'+i, o.TwoLaunchDir[i], o.TwoTmp[i]))
				}
			}
			return res
		}
		for i := 0; i < 2; i++ {
			if o.TwoTmp[i] == "" || o.TwoEnvDir[i] != o.TwoTmp[i] {
				viol("socket-dir-env-differs-from-runner-dir", fmt.Sprintf("client %c: PLUGIN_UNIX_SOCKET_DIR=%q but the runner was handed %q", 'A'+i, o.TwoEnvDir[i], o.TwoTmp[i]))
			}
		}
		if o.TwoTmp[0] == o.TwoTmp[1] {
			viol("socket-dir-shared", fmt.Sprintf("two clients built from one ClientConfig were given the same socket directory %q", o.TwoTmp[0]))
			return res
		}
		if o.ExistBoth != "AB" {
			viol("socket-dir-missing-while-alive", fmt.Sprintf("with both clients alive the socket directories that exist are %q (want both)", o.ExistBoth))
		}
		if o.ExistAfterA != "B" {
			viol("socket-dir-kill-of-other-client", fmt.Sprintf("after client A was killed (B still alive) the socket directories that exist are %q: want only B's (A=%s B=%s)", o.ExistAfterA, o.TwoTmp[0], o.TwoTmp[1]))
		}
		if o.ExistAfterB != "" {
			viol("socket-dir-left-behind", fmt.Sprintf("after both clients were killed socket directories remain: %q (A=%s B=%s)", o.ExistAfterB, o.TwoTmp[0], o.TwoTmp[1]))
		}
		return res
	}
	if p.E2E {
		res.Counters["e2e"]++
		res.Sample = map[string]any{"e2e": true, "ambient": p.AmbientName, "proto": p.E2EProto, "autoMTLS": p.AutoMTLS, "mux": p.Mux, "start": o.StartErr, "client": o.ClientErr, "ping": o.PingErr, "call": o.CallErr}
		if o.StartErr != "" || o.ClientErr != "" || o.PingErr != "" || o.CallErr != "" {
			key := "e2e-broken"
			amb := effectiveEnv(p.Ambient)
			usr := effectiveEnv(p.UserEnv)
			switch {
			case !p.AutoMTLS && usr["PLUGIN_CLIENT_CERT"] != "":
				key = "user-env:PLUGIN_CLIENT_CERT"
			case !p.Mux && usr["PLUGIN_MULTIPLEX_GRPC"] != "":
				key = "user-env:PLUGIN_MULTIPLEX_GRPC"
			case !p.AutoMTLS && amb["PLUGIN_CLIENT_CERT"] != "":
				key = "inherited:PLUGIN_CLIENT_CERT"
			case !p.Mux && amb["PLUGIN_MULTIPLEX_GRPC"] != "":
				key = "inherited:PLUGIN_MULTIPLEX_GRPC"
			}
			viol(key, fmt.Sprintf("a plugin launched with a self-consistent config does not work (proto %s): start=%q client=%q ping=%q call=%q", p.E2EProto, o.StartErr, o.ClientErr, o.PingErr, o.CallErr))
		}
		return res
	}
	E := effectiveEnv(o.Env)
	res.Counters["env_vars_seen"] += len(E)
	res.Sample = map[string]any{"launch": p.Launch, "ambient": p.AmbientName, "autoMTLS": p.AutoMTLS, "mux": p.Mux, "skipHostEnv": p.SkipHostEnv,
		"PLUGIN_PROTOCOL_VERSIONS": E["PLUGIN_PROTOCOL_VERSIONS"], "PLUGIN_MULTIPLEX_GRPC": E["PLUGIN_MULTIPLEX_GRPC"], "cert_len": len(E["PLUGIN_CLIENT_CERT"]), "n_vars": len(E)}
	if E[spec.CookieKey] != spec.CookieValue {
		viol("cookie", fmt.Sprintf("cookie variable is %q", E[spec.CookieKey]))
	}
	// versions: exactly the offered set
	var got []int
	bad := false
	if E["PLUGIN_PROTOCOL_VERSIONS"] != "" {
		for _, s := range strings.Split(E["PLUGIN_PROTOCOL_VERSIONS"], ",") {
			v, err := strconv.Atoi(s)
			if err != nil {
				bad = true
			}
			got = append(got, v)
		}
	}
	sort.Ints(got)
	want := append([]int(nil), spec.C01Offered(p.Sets)...)
	sort.Ints(want)
	if bad || fmt.Sprint(got) != fmt.Sprint(want) {
		viol("versions", fmt.Sprintf("PLUGIN_PROTOCOL_VERSIONS=%q, offered %v", E["PLUGIN_PROTOCOL_VERSIONS"], want))
	}
	minP, maxP := p.MinPort, p.MaxPort
	if minP == 0 && maxP == 0 {
		minP, maxP = 10000, 25000
	}
	if E["PLUGIN_MIN_PORT"] != fmt.Sprint(minP) || E["PLUGIN_MAX_PORT"] != fmt.Sprint(maxP) {
		viol("ports", fmt.Sprintf("port range %q-%q, configured %d-%d", E["PLUGIN_MIN_PORT"], E["PLUGIN_MAX_PORT"], minP, maxP))
	}
	amb := effectiveEnv(p.Ambient)
	usr := effectiveEnv(p.UserEnv)
	cert := E["PLUGIN_CLIENT_CERT"]
	if p.AutoMTLS {
		blk, _ := pem.Decode([]byte(cert))
		if blk == nil || blk.Type != "CERTIFICATE" {
			viol("cert-missing", "AutoMTLS on but PLUGIN_CLIENT_CERT is not a PEM certificate")
		} else if cert == amb["PLUGIN_CLIENT_CERT"] {
			viol("inherited:PLUGIN_CLIENT_CERT", "AutoMTLS on but the child got the host's own inherited certificate")
		} else if cert == usr["PLUGIN_CLIENT_CERT"] {
			viol("user-env:PLUGIN_CLIENT_CERT", "AutoMTLS on but the child got the certificate found in Cmd.Env instead of this client's")
		}
	} else if cert != "" {
		k := "cert-present"
		if cert == amb["PLUGIN_CLIENT_CERT"] {
			k = "inherited:PLUGIN_CLIENT_CERT"
		} else if cert == usr["PLUGIN_CLIENT_CERT"] {
			k = "user-env:PLUGIN_CLIENT_CERT"
		}
		viol(k, "AutoMTLS off but the child receives a non-empty PLUGIN_CLIENT_CERT")
	}
	mx := E["PLUGIN_MULTIPLEX_GRPC"]
	if p.Mux {
		if mx != "true" {
			viol("mux-missing", fmt.Sprintf("multiplexing requested but PLUGIN_MULTIPLEX_GRPC=%q", mx))
		}
	} else if mx != "" {
		k := "mux-present"
		if mx == amb["PLUGIN_MULTIPLEX_GRPC"] {
			k = "inherited:PLUGIN_MULTIPLEX_GRPC"
		} else if mx == usr["PLUGIN_MULTIPLEX_GRPC"] {
			k = "user-env:PLUGIN_MULTIPLEX_GRPC"
		}
		viol(k, fmt.Sprintf("multiplexing not requested but the child receives PLUGIN_MULTIPLEX_GRPC=%q", mx))
	}
	if p.Group && E["PLUGIN_UNIX_SOCKET_GROUP"] != o.Gid {
		viol("socket-group", fmt.Sprintf("PLUGIN_UNIX_SOCKET_GROUP=%q, configured %q", E["PLUGIN_UNIX_SOCKET_GROUP"], o.Gid))
	}
	if p.Launch == "runner" {
		sd := E["PLUGIN_UNIX_SOCKET_DIR"]
		if sd == "" {
			viol("socket-dir", "custom runner launch without PLUGIN_UNIX_SOCKET_DIR")
		} else if p.TempDir && !strings.HasPrefix(sd, o.TempDir+"/") {
			viol("socket-dir", fmt.Sprintf("PLUGIN_UNIX_SOCKET_DIR=%q is not inside the configured TempDir %q", sd, o.TempDir))
		}
	}
	if !o.StdinSame {
		viol("stdin", "the launched command's stdin is not the host's stdin")
	}
	if p.SkipHostEnv && !p.UserEnvHost { // (with a copy of the host environment in Cmd.Env every variable is the user's own)
		user := effectiveEnv(p.UserEnv)
		control := map[string]bool{spec.CookieKey: true, "PLUGIN_MIN_PORT": true, "PLUGIN_MAX_PORT": true, "PLUGIN_PROTOCOL_VERSIONS": true,
			"PLUGIN_MULTIPLEX_GRPC": true, "PLUGIN_CLIENT_CERT": true, "PLUGIN_UNIX_SOCKET_GROUP": true, "PLUGIN_UNIX_SOCKET_DIR": true}
		for k, v := range E {
			if control[k] {
				continue
			}
			if uv, ok := user[k]; ok && uv == v {
				continue
			}
			viol("skiphostenv-leak", fmt.Sprintf("SkipHostEnv set but the child receives host variable %s", k))
			break
		}
	} else if len(p.Ambient) > 0 {
		if E["VERIF_HOST_MARKER_A"] == "" && amb["VERIF_HOST_MARKER_A"] != "" {
			res.Counters["host_env_not_passed"]++
		}
	}
	return res
}

func init() {
	register(&Prop{
		ID: "C17", Level: "exploration", Race: true, TestName: "TestC17",
		Gen: c17Gen, Batch: 12, Children: 12, PerCase: 3 * time.Second, Base: 90 * time.Second,
		Judge: c17Judge,
		Rule:  "cases = client configuration (AutoMTLS x mux x SkipHostEnv x launch method x plugin-set layout x port range x socket group/TempDir x user Cmd.Env, including entries that collide with the control variables) x ambient host environment (clean, marker variables, host that is itself a plugin and carries PLUGIN_* variables, single inherited variable). The environment is captured as handed to a custom runner (in a third of those cases at the second Start of a client whose first RunnerFunc call failed) and as actually received by a real child process (which also reports its stdin's device/inode); e2e cases launch a real serving plugin from such a host; two-client rounds build two clients from one ClientConfig (one UnixSocketConfig) through a RunnerFunc, keep both alive and record the socket directory each runner was handed, PLUGIN_UNIX_SOCKET_DIR in each environment and which directories exist after each Kill; further rounds start the two clients at the same time with a runner that keeps the cmd.Env slice it was handed and launches from it after the other client prepared its launch. Class = (launch, ambient, AutoMTLS, mux, SkipHostEnv, e2e)",
		Assumptions: []string{
			"the effective environment is computed as exec does (last duplicate wins); an empty value counts as absent because that is how the server reads these variables",
			"only ambient variables are judged under SkipHostEnv; entries the user put into Cmd.Env are theirs",
			"PLUGIN_UNIX_SOCKET_DIR/GROUP inherited when not configured are recorded but not judged (the statement speaks of them only 'when configured')",
		},
	})
}
