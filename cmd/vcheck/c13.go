package main

import (
	"bytes"
	"crypto/md5"
	"crypto/sha1"
	"crypto/sha256"
	"crypto/sha512"
	"fmt"
	"math/rand"
	"strings"
	"time"

	"verif/spec"
)

func c13Digest(hash string, b []byte) []byte {
	switch hash {
	case "sha256":
		x := sha256.Sum256(b)
		return x[:]
	case "sha512":
		x := sha512.Sum512(b)
		return x[:]
	case "sha1":
		x := sha1.Sum(b)
		return x[:]
	case "md5":
		x := md5.Sum(b)
		return x[:]
	}
	return nil
}

func c13Gen(r *rand.Rand, tier string) []spec.Case {
	var out []spec.Case
	type file struct {
		kind string
		size int
	}
	files := []file{{"script", 60}, {"script", 64}, {"script", 65}, {"script", 4096}, {"junk", 0}, {"junk", 1}, {"junk", 63}}
	hashes := []string{"sha256"}
	if tier == "thorough" {
		files = append(files, file{"script", 1 << 20}, file{"junk", 64}, file{"junk", 1 << 16})
		hashes = []string{"sha256", "sha512", "sha1", "md5"}
	}
	add := func(f file, seed int64, hash, variant string, sum []byte) {
		out = append(out, spec.Case{Kind: variant, P: spec.MustJSON(spec.C13Case{FileKind: f.kind, FileSize: f.size, FileSeed: seed, Hash: hash, Variant: variant, Checksum: sum})})
	}
	for fi, f := range files {
		for hi, h := range hashes {
			seed := int64(r.Intn(1000))
			sum := c13Digest(h, spec.C13File(f.kind, f.size, seed))
			add(f, seed, h, "exact", sum)
			// every single-bit flip: exhaustive for the first script file, sampled for the others
			for i := 0; i < len(sum)*8; i++ {
				if (fi > 0 || hi > 0) && tier != "thorough" && r.Intn(16) != 0 {
					continue
				}
				x := append([]byte(nil), sum...)
				x[i/8] ^= 1 << uint(i%8)
				add(f, seed, h, "bitflip", x)
			}
			for n := 1; n < len(sum); n++ {
				if fi > 1 && tier != "thorough" && r.Intn(4) != 0 {
					continue
				}
				add(f, seed, h, "prefix", sum[:n])
				if n <= 4 {
					add(f, seed, h, "suffix", sum[n:])
				}
			}
			for n := 1; n <= 8; n++ {
				add(f, seed, h, "trailing", append(append([]byte(nil), sum...), spec.PRBytes(fmt.Sprint(n, seed), n)...))
				add(f, seed, h, "trailing-zeros", append(append([]byte(nil), sum...), make([]byte, n)...))
			}
			add(f, seed, h, "doubled", append(append([]byte(nil), sum...), sum...))
			add(f, seed, h, "leading", append([]byte{0}, sum...))
			add(f, seed, h, "empty", []byte{})
			add(f, seed, h, "nil", nil)
			add(f, seed, h, "zeros", make([]byte, len(sum)))
			other := c13Digest(h, append(spec.C13File(f.kind, f.size, seed), 'x'))
			add(f, seed, h, "other-file-digest", other)
			add(f, seed, "nil", "nil-hash", sum)
		}
	}
	// files whose digest ends in a zero byte (and, for sha256, in two): every proper prefix of such a digest
	// is still a differing checksum, also the prefix that only lacks the zero tail
	for _, h := range hashes {
		for _, zeros := range []int{1, 2} {
			if zeros == 2 && h != "sha256" {
				continue
			}
			f := file{"script", 200}
			seed, found := int64(-1), false
			for sd := int64(0); sd < 400000 && !found; sd++ {
				if sd >= 0xD800 && sd <= 0xDFFF {
					continue // not valid runes: C13File would see the same replacement character for all of them
				}
				d := c13Digest(h, spec.C13File(f.kind, f.size, sd))
				found = true
				for k := 1; k <= zeros; k++ {
					if d[len(d)-k] != 0 {
						found = false
					}
				}
				if found {
					seed = sd
				}
			}
			if !found {
				continue
			}
			sum := c13Digest(h, spec.C13File(f.kind, f.size, seed))
			add(f, seed, h, "exact", sum)
			for n := 1; n < len(sum); n++ {
				add(f, seed, h, "prefix-of-zero-tailed-digest", sum[:n])
			}
			add(f, seed, h, "trailing-zeros", append(append([]byte(nil), sum...), 0))
		}
	}
	// histories: several launches of one path sharing one SecureConfig value, the file replaced in between
	hists := [][]string{{"good", "good"}, {"good", "tampered"}, {"tampered", "good"}, {"good", "tampered", "good"}, {"good", "good", "tampered"}, {"tampered", "tampered", "good", "tampered"}}
	for _, h := range hashes {
		for _, hs := range hists {
			for _, reset := range []bool{false, true} {
				seed := int64(r.Intn(1000))
				f := file{"script", pick(r, []int{60, 64, 65, 200})}
				sum := c13Digest(h, spec.C13File(f.kind, f.size, seed))
				out = append(out, spec.Case{Kind: "history", P: spec.MustJSON(spec.C13Case{FileKind: f.kind, FileSize: f.size, FileSeed: seed, Hash: h, Variant: "history", Checksum: sum, Steps: hs, CallerReset: reset})})
				if !reset {
					f2 := file{"script", 200}
					sum2 := c13Digest(h, spec.C13File(f2.kind, f2.size, seed))
					out = append(out, spec.Case{Kind: "history", P: spec.MustJSON(spec.C13Case{FileKind: f2.kind, FileSize: f2.size, FileSeed: seed, Hash: h, Variant: "history-in-place", Checksum: sum2, Steps: hs, InPlace: true})})
				}
			}
		}
	}
	// paths on which lexical and kernel resolution differ, or that go through a symlink: the file that is
	// hashed must be the file that is executed
	for _, h := range hashes {
		for _, pk := range []string{"dotdot-approved", "dotdot-tampered", "symlink-approved", "symlink-tampered", "relative-approved", "relative-tampered", "argv0-approved", "argv0-tampered", "barename-approved", "barename-tampered"} {
			for k := 0; k < 2; k++ {
				seed := int64(r.Intn(1000))
				f := file{"script", pick(r, []int{60, 64, 65, 200})}
				sum := c13Digest(h, spec.C13File(f.kind, f.size, seed))
				out = append(out, spec.Case{Kind: "path", P: spec.MustJSON(spec.C13Case{FileKind: f.kind, FileSize: f.size, FileSeed: seed, Hash: h, Variant: "path:" + pk, Checksum: sum, PathKind: pk})})
			}
		}
	}
	// two clients sharing one SecureConfig (and a hash object that is safe to share) started a few ms apart
	for _, h := range hashes {
		for _, cc := range [][]string{{"good", "tampered"}, {"tampered", "good"}, {"good", "good"}, {"good", "tampered", "good"}} {
			seed := int64(r.Intn(1000))
			f := file{"script", pick(r, []int{64, 200, 5000})}
			sum := c13Digest(h, spec.C13File(f.kind, f.size, seed))
			out = append(out, spec.Case{Kind: "concurrent", P: spec.MustJSON(spec.C13Case{FileKind: f.kind, FileSize: f.size, FileSeed: seed, Hash: h, Variant: "concurrent", Checksum: sum, Concurrent: cc})})
		}
	}
	// a RunnerFunc client with a SecureConfig: go-plugin has no file to hash, whatever the checksum
	for _, h := range hashes {
		for _, v := range []string{"exact", "other", "zeros"} {
			seed := int64(r.Intn(1000))
			f := file{"script", 64}
			sum := c13Digest(h, spec.C13File(f.kind, f.size, seed))
			switch v {
			case "other":
				sum = c13Digest(h, []byte("something else"))
			case "zeros":
				sum = make([]byte, len(sum))
			}
			out = append(out, spec.Case{Kind: "runner", P: spec.MustJSON(spec.C13Case{FileKind: f.kind, FileSize: f.size, FileSeed: seed, Hash: h, Variant: "runner:" + v, Checksum: sum, ViaRunner: true})})
		}
	}
	// a missing binary
	out = append(out, spec.Case{Kind: "missing", P: spec.MustJSON(spec.C13Case{FileKind: "script", FileSize: 64, Hash: "sha256", Variant: "missing", Checksum: make([]byte, 32), Missing: true})})
	return out
}

func c13Judge(c spec.Case, evs []spec.Event, d *Death) CaseResult {
	var p spec.C13Case
	jsonUnmarshal(c.P, &p)
	if d != nil {
		return deathResult(d, "C13")
	}
	var o spec.C13Obs
	if !decodeD(findEv(evs, "ret", "Start"), &o) {
		return CaseResult{Verdict: "inconclusive", Inconcl: "no observation"}
	}
	res := CaseResult{Verdict: "held", Counters: map[string]int{}}
	res.Class = fmt.Sprintf("%s/%s/%s/%d", p.Variant, p.Hash, p.FileKind, p.FileSize)
	viol := func(key, msg string) {
		res.Verdict = "violated"
		res.Violations = append(res.Violations, Violation{Key: "C13:" + key, Msg: fmt.Sprintf("%s [variant=%s hash=%s file=%s/%d checksumLen=%d] err=%q", msg, p.Variant, p.Hash, p.FileKind, p.FileSize, len(p.Checksum), trunc(o.Err, 150))})
	}
	content := spec.C13File(p.FileKind, p.FileSize, p.FileSeed)
	if len(p.Concurrent) > 0 {
		res.Class = fmt.Sprintf("concurrent/%s/%v", p.Hash, p.Concurrent)
		if len(o.Steps) != len(p.Concurrent) {
			return CaseResult{Verdict: "inconclusive", Inconcl: "not all clients observed", Class: res.Class}
		}
		var trace []string
		for i, st := range p.Concurrent {
			so := o.Steps[i]
			body := content
			if st == "tampered" {
				body = append(append([]byte(nil), content...), '#', 'x')
			}
			match := bytes.Equal(c13Digest(p.Hash, body), p.Checksum)
			launched := so.Marker || so.ProcessSet
			trace = append(trace, fmt.Sprintf("%s:launched=%v", st, launched))
			res.Counters["concurrent_clients"]++
			switch {
			case match && !launched:
				viol("concurrent:not-launched", fmt.Sprintf("client %d of %v (started a few ms apart, one shared SecureConfig): its file hashes to the checksum but was not executed: %s", i, p.Concurrent, trunc(so.Err, 100)))
			case !match && launched:
				viol("concurrent:launched-with-wrong-checksum", fmt.Sprintf("client %d of %v (started a few ms apart, one shared SecureConfig): its file does not hash to the checksum but was executed", i, p.Concurrent))
			}
		}
		res.Sample = map[string]any{"variant": "concurrent", "hash": p.Hash, "clients": trace}
		return res
	}
	if p.ViaRunner {
		res.Counters["runner_cases"]++
		res.Sample = map[string]any{"variant": p.Variant, "runner_calls": o.RunnerCalls, "launched": o.Marker, "err": trunc(o.Err, 80)}
		if o.RunnerCalls > 0 || o.Marker {
			viol("runner-launched-unverified", fmt.Sprintf("with a RunnerFunc and a SecureConfig there is no file whose hash could equal the checksum, yet the RunnerFunc was invoked %d time(s) (launched=%v)", o.RunnerCalls, o.Marker))
		} else if o.Err == "" {
			viol("runner-start-succeeded", "Start succeeded with a RunnerFunc and a SecureConfig although nothing was verified")
		}
		return res
	}
	if len(p.Steps) > 0 {
		res.Class = fmt.Sprintf("history/%s/%v/reset=%v/inplace=%v", p.Hash, p.Steps, p.CallerReset, p.InPlace)
		if len(o.Steps) != len(p.Steps) {
			return CaseResult{Verdict: "inconclusive", Inconcl: "history not completed", Class: res.Class}
		}
		var trace []string
		for i, st := range p.Steps {
			so := o.Steps[i]
			body := content
			if st == "tampered" {
				body = append(append([]byte(nil), content...), '#', 'x')
			}
			if st == "tampered" && p.InPlace {
				body = append([]byte(nil), content...)
				body[len(body)-1] ^= 1
			}
			sum := c13Digest(p.Hash, body)
			if !bytes.Equal(sum, so.FileSum) {
				return CaseResult{Verdict: "inconclusive", Inconcl: "host and driver disagree on the file digest", Class: res.Class}
			}
			match := bytes.Equal(sum, p.Checksum)
			launched := so.Marker || so.ProcessSet
			trace = append(trace, fmt.Sprintf("%s:launched=%v", st, launched))
			res.Counters["history_steps"]++
			switch {
			case match && !launched:
				res.Counters["matching"]++
				viol("history:not-launched", fmt.Sprintf("step %d of %v (one SecureConfig value shared by all launches, callerReset=%v): the file hashes to the checksum but was not executed: %s", i, p.Steps, p.CallerReset, trunc(so.Err, 100)))
			case !match && launched:
				res.Counters["non_matching"]++
				viol("history:launched-with-wrong-checksum", fmt.Sprintf("step %d of %v (one SecureConfig value shared by all launches, callerReset=%v): the file at the command path no longer hashes to the checksum but was executed", i, p.Steps, p.CallerReset))
			case !match && !so.IsMismatch:
				res.Counters["non_matching"]++
				viol("history:wrong-error", fmt.Sprintf("step %d of %v: a differing checksum must yield the checksum-mismatch error, got %q", i, p.Steps, trunc(so.Err, 100)))
			case match:
				res.Counters["matching"]++
			default:
				res.Counters["non_matching"]++
			}
		}
		res.Sample = map[string]any{"variant": "history", "hash": p.Hash, "steps": trace, "caller_reset": p.CallerReset}
		return res
	}
	want := c13Digest(p.Hash, content)
	if p.PathKind != "" {
		// the file the kernel runs for this path is the approved one or the tampered one; the host hashed it
		// through the same path
		want = c13Digest(p.Hash, content)
		if strings.HasSuffix(p.PathKind, "-tampered") {
			want = c13Digest(p.Hash, append(append([]byte(nil), content...), '#', 'x'))
		}
		if !bytes.Equal(want, o.FileSum) {
			return CaseResult{Verdict: "inconclusive", Inconcl: "the path does not resolve to the expected file in this sandbox", Class: res.Class}
		}
		res.Counters["path_cases"]++
	}
	if want != nil && !bytes.Equal(want, o.FileSum) {
		return CaseResult{Verdict: "inconclusive", Inconcl: "host and driver disagree on the file digest"}
	}
	match := want != nil && bytes.Equal(want, p.Checksum) && !p.Missing
	launched := o.Marker || o.ProcessSet
	res.Sample = map[string]any{"variant": p.Variant, "hash": p.Hash, "file": fmt.Sprintf("%s/%d", p.FileKind, p.FileSize), "checksum_len": len(p.Checksum), "matches": match, "launched": launched, "err": trunc(o.Err, 80)}
	switch {
	case match:
		res.Counters["matching"]++
		if o.IsMismatch || o.IsNoChecksum || o.IsNoHash {
			viol("rejected-matching", "checksum equals the file's hash but Start reported a checksum error")
		}
		if p.FileKind == "script" && !o.Marker {
			viol("not-launched", "checksum equals the file's hash but the binary was not executed (no launch marker)")
		}
		if !o.ProcessSet && p.FileKind == "script" {
			viol("not-launched", "checksum matches but no process was started")
		}
	default:
		res.Counters["non_matching"]++
		if launched {
			viol("launched-with-wrong-checksum:"+p.Variant, "the binary was executed although the configured checksum differs from the file's hash")
		}
		switch {
		case p.Missing:
			if o.Err == "" {
				viol("missing-file-accepted", "Start succeeded for a missing binary")
			}
		case len(p.Checksum) == 0:
			if !o.IsNoChecksum {
				viol("wrong-error:"+p.Variant, "empty checksum must yield the no-checksum error")
			}
		case p.Hash == "nil":
			if !o.IsNoHash {
				viol("wrong-error:"+p.Variant, "nil hash must yield the no-hash error")
			}
		default:
			if !o.IsMismatch {
				viol("wrong-error:"+p.Variant, "a differing checksum must yield the checksum-mismatch error")
			}
		}
	}
	return res
}

func c13Finish(r *Run) {
	if len(r.Cases) > 20 && (r.Counters["matching"] == 0 || r.Counters["non_matching"] == 0) {
		r.Inconcl = append(r.Inconcl, "need both matching and non-matching cases")
	}
	r.Extra["exhaustive_subspace"] = "all single-bit flips and all proper prefixes of the sha256 digest of the first script file"
}

func init() {
	register(&Prop{
		ID: "C13", Level: "exploration", Race: true, TestName: "TestC13",
		Gen: c13Gen, Batch: 300, Children: 6, PerCase: 500 * time.Millisecond, Base: 90 * time.Second,
		Judge: c13Judge, Finish: c13Finish,
		Rule:        "cases = (file content: executable scripts of several sizes around the 64-byte block boundary and non-executable junk incl. empty; hash function; checksum variant: exact, every single-bit flip [exhaustive for the first file, sampled elsewhere in quick, exhaustive everywhere in thorough], every proper prefix, suffixes, 1-8 trailing bytes (random / zero), doubled, leading byte, empty, nil, zeros, digest of another file, nil Hash, missing binary; also for files chosen so that their digest ends in one or two zero bytes) plus histories of 2-4 launches of one path that share one SecureConfig value while the file is atomically replaced (good/tampered) in between, with and without the caller resetting the hash, and with the file rewritten in place (same inode, same length, modification time put back); plus command paths on which lexical and kernel resolution differ (<dir>/a/link/../bin through a directory symlink) or that are symlinks, relative command paths, and a relative path combined with an argv[0] that names the other file by its absolute path, a bare command name in a hand-built Cmd with a same-named file in a directory at the front of PATH, with the approved and a tampered file on either side. The script writes a launch marker as its first action; the oracle computes the digest independently and requires launched <=> checksum == H(file) plus the corresponding error. Class = variant/hash/file",
		Assumptions: []string{"'the corresponding error' is matched by errors.Is or message containment (Start wraps two of the sentinels with %s)", "for non-executable junk files 'executed' means exec was attempted (Cmd.Process set or a non-checksum error)"},
	})
}
