package main

import (
	"fmt"
	"math/rand"
	"strings"
	"time"

	"verif/spec"
)

func c12Gen(r *rand.Rand, tier string) []spec.Case {
	var out []spec.Case
	add := func(c spec.C12Case) {
		out = append(out, spec.Case{Kind: c.Proto + "/" + c.Path + c.Impostor, P: spec.MustJSON(c)})
	}
	reps := 1
	if tier == "thorough" {
		reps = 20 // fresh key pairs for every credential class each time
	}
	for i := 0; i < reps; i++ {
		for _, la := range []string{"cmd", "runner"} {
			add(spec.C12Case{Proto: "netrpc", Path: "main", Launch: la})
			add(spec.C12Case{Proto: "grpc", Path: "main", Launch: la})
			add(spec.C12Case{Proto: "grpcmux", Path: "main", Launch: la})
			add(spec.C12Case{Proto: "grpcmux", Path: "main-race", Launch: la})
		}
		for _, pr := range []string{"netrpc", "grpc"} {
			add(spec.C12Case{Proto: pr, Path: "main-tlsprovider", Launch: "cmd"})
		}
		for _, la := range []string{"cmd", "runner"} {
			add(spec.C12Case{Proto: "grpc", Path: "brokered-address-impostor", Launch: la})
		}
		add(spec.C12Case{Proto: "grpc", Path: "plugin-brokered", Launch: "runner"})
		add(spec.C12Case{Proto: "grpc", Path: "host-brokered", Launch: "runner"})
		for _, pr := range []string{"grpcmux", "grpc"} {
			add(spec.C12Case{Proto: pr, Path: "plugin-brokered-session", Launch: "cmd"})
			add(spec.C12Case{Proto: pr, Path: "host-brokered-session", Launch: "cmd"})
		}
		add(spec.C12Case{Proto: "grpc", Path: "plugin-brokered", Launch: "runner-translate"})
		add(spec.C12Case{Proto: "grpc", Path: "host-brokered", Launch: "runner-translate"})
		for _, pr := range []string{"netrpc", "grpc"} {
			// (a host process of its own: whatever one launch leaves behind in process-wide state, e.g. cached TLS
			// sessions, is not disturbed by other cases' connections before the second launch)
			out = append(out, spec.Case{Kind: "solo:" + pr + "/relaunch-impostor", P: spec.MustJSON(spec.C12Case{Proto: pr, Path: "relaunch-impostor", Launch: "cmd"})})
			out = append(out, spec.Case{Kind: "solo:" + pr + "/relaunch-impostor-nocert", P: spec.MustJSON(spec.C12Case{Proto: pr, Path: "relaunch-impostor-nocert", Launch: "cmd"})})
			out = append(out, spec.Case{Kind: "solo:" + pr + "/relaunch-impostor-shortcert", P: spec.MustJSON(spec.C12Case{Proto: pr, Path: "relaunch-impostor-shortcert", Launch: "cmd"})})
		}
		// the plugin side of AutoMTLS on its own: started directly with PLUGIN_CLIENT_CERT in unusual shapes
		for _, pr := range []string{"netrpc", "grpc"} {
			for _, ce := range []string{"plain", "cert+junkblock", "junkblock+cert", "cert+keyblock", "cert+text", "two-certs", "junkblock-only", "text-only"} {
				c := spec.C12Case{Proto: pr, Path: "direct-env", Launch: "direct", CertEnv: ce}
				out = append(out, spec.Case{Kind: pr + "/direct-env/" + ce, P: spec.MustJSON(c)})
			}
		}
		for _, pr := range []string{"netrpc", "grpc", "grpcmux"} {
			for _, im := range []string{"tls", "plaintext", "chain-ipsan", "chain-localhost"} {
				add(spec.C12Case{Proto: pr, Impostor: im, Launch: "cmd"})
			}
		}
	}
	return out
}

func c12Judge(c spec.Case, evs []spec.Event, d *Death) CaseResult {
	var p spec.C12Case
	jsonUnmarshal(c.P, &p)
	if d != nil {
		return deathResult(d, "C12")
	}
	var o spec.C12Obs
	if !decodeD(findEv(evs, "ret", "mtls"), &o) {
		return CaseResult{Verdict: "inconclusive", Inconcl: "no observation"}
	}
	res := CaseResult{Verdict: "held", Counters: map[string]int{}}
	res.Class = fmt.Sprintf("%s|%s%s|%s", p.Proto, p.Path, p.Impostor, p.Launch)
	viol := func(key, msg string) {
		res.Verdict = "violated"
		res.Violations = append(res.Violations, Violation{Key: "C12:" + key, Msg: fmt.Sprintf("%s [proto=%s path=%s impostor=%s launch=%s]", msg, p.Proto, p.Path, p.Impostor, p.Launch)})
	}
	if strings.HasPrefix(p.Path, "relaunch-impostor") {
		res.Sample = map[string]any{"path": p.Path, "proto": p.Proto, "launch1": o.Positive, "launch2": o.HostOps}
		res.Counters["impostor_cases"]++
		if !o.PositiveOK {
			return CaseResult{Verdict: "inconclusive", Inconcl: "positive control failed: " + o.Positive, Class: res.Class}
		}
		for _, h := range o.HostOps {
			if h == "HUNG" {
				viol("impostor-hang", fmt.Sprintf("host operations against an impostor plugin hung: %v", o.HostOps))
			}
		}
		if o.AnyOK {
			viol("impostor-answered:earlier-launch-certificate", fmt.Sprintf("with one ClientConfig used for a second launch, the host completed an RPC against a plugin that announced %s but serves with the certificate of the earlier launch: %v", map[string]string{"relaunch-impostor": "a fresh certificate", "relaunch-impostor-nocert": "no certificate", "relaunch-impostor-shortcert": "a three-character certificate field"}[p.Path], o.HostOps))
		}
		return res
	}
	if p.Impostor != "" {
		res.Sample = map[string]any{"impostor": p.Impostor, "proto": p.Proto, "host_ops": o.HostOps}
		res.Counters["impostor_cases"]++
		if len(o.HostOps) == 0 {
			return CaseResult{Verdict: "inconclusive", Inconcl: "no host operations recorded"}
		}
		if !strings.HasPrefix(o.HostOps[0], "Start: ok") {
			// refusing at Start is fine too (e.g. the impostor line was not accepted)
			return res
		}
		for _, h := range o.HostOps {
			if h == "HUNG" {
				viol("impostor-hang", fmt.Sprintf("host operations against an impostor plugin hung: %v", o.HostOps))
			}
		}
		if o.AnyOK {
			viol("impostor-answered:"+p.Impostor, fmt.Sprintf("the host completed an RPC against a plugin that announced one certificate and serves %s: %v", map[string]string{"tls": "another", "plaintext": "plaintext", "chain-ipsan": "another leaf with the announced (IP-SAN-only) certificate appended to its chain", "chain-localhost": "another leaf with the announced certificate appended to its chain"}[p.Impostor], o.HostOps))
		}
		return res
	}
	if o.SetupErr != "" {
		return CaseResult{Verdict: "inconclusive", Inconcl: "setup: " + o.SetupErr, Class: res.Class}
	}
	res.Sample = map[string]any{"proto": p.Proto, "path": p.Path, "launch": p.Launch, "positive_control": o.Positive, "attempts": o.Attempts}
	if p.Path == "direct-env" {
		res.Class = fmt.Sprintf("%s|direct-env|%s", p.Proto, p.CertEnv)
		res.Sample = map[string]any{"proto": p.Proto, "path": p.Path, "cert_env": p.CertEnv, "line": trunc(o.Line, 60), "positive_control": o.Positive, "attempts": o.Attempts}
		res.Counters["odd_cert_env_cases"]++
		// only the plain shape has to work for the legitimate host; with any other shape the plugin may
		// refuse everybody, but it may never serve an intruder
		if p.CertEnv == "plain" && !o.PositiveOK {
			return CaseResult{Verdict: "inconclusive", Inconcl: "positive control failed: " + o.Positive, Class: res.Class}
		}
		if o.PositiveOK {
			res.Counters["odd_cert_env_host_served"]++
		}
		for _, a := range o.Attempts {
			res.Counters["intruder_attempts"]++
			if a.Answered {
				viol("intruder-answered:direct-env:"+p.CertEnv+":"+a.Cred, fmt.Sprintf("the plugin was started with PLUGIN_CLIENT_CERT of shape %q and answered an RPC of an intruder with credential class %q on its main listener (handshake line %q)", p.CertEnv, a.Cred, trunc(o.Line, 80)))
			} else {
				res.Counters["refused"]++
			}
		}
		return res
	}
	if p.Path == "main-tlsprovider" {
		// A plugin with its own TLSProvider does not take part in AutoMTLS (it does not authenticate the host).
		// Either the host gets no working session out of it, or, if it does, the plugin must refuse everybody else.
		res.Counters["tlsprovider_plugin_cases"]++
		if !o.PositiveOK {
			res.Counters["tlsprovider_plugin_not_usable_by_automtls_host"]++
			return res
		}
		for _, a := range o.Attempts {
			res.Counters["intruder_attempts"]++
			if a.Answered {
				viol("automtls-session-with-unauthenticating-plugin:"+a.Cred, fmt.Sprintf("the host asked for AutoMTLS and got a working session (%s) with a plugin that serves with its own TLSProvider, and that plugin also answers an intruder with credential class %q on the same listener: the session the host believes to be mutually authenticated is not", o.Positive, a.Cred))
			}
		}
		return res
	}
	if !o.PositiveOK {
		return CaseResult{Verdict: "inconclusive", Inconcl: "positive control failed (the legitimate peer could not use the listener): " + o.Positive, Class: res.Class}
	}
	if len(o.Attempts) == 0 {
		return CaseResult{Verdict: "inconclusive", Inconcl: "no intruder attempts", Class: res.Class}
	}
	for _, a := range o.Attempts {
		res.Counters["intruder_attempts"]++
		if a.Answered {
			viol("intruder-answered:"+p.Path+":"+a.Cred, fmt.Sprintf("an intruder with credential class %q got an RPC answered on %s (%s)", a.Cred, p.Path, o.Target))
		} else {
			res.Counters["refused"]++
		}
	}
	return res
}

func init() {
	register(&Prop{
		ID: "C12", Level: "exploration", Race: true, TestName: "TestC12",
		Gen: c12Gen, Batch: 4, Children: 6, PerCase: 30 * time.Second, Base: 120 * time.Second,
		Judge: c12Judge,
		Finish: func(r *Run) {
			if len(r.Cases) > 10 && (r.Counters["intruder_attempts"] < 20 || r.Counters["impostor_cases"] == 0) {
				r.Inconcl = append(r.Inconcl, fmt.Sprintf("too little observed: %v", r.Counters))
			}
		},
		Rule:        "cases = connection path (main listener of net/rpc, gRPC, gRPC+mux incl. an intruder that takes the multiplexed listener's single session before the host; plugin-side and host-side brokered gRPC listeners found by listing the case's private socket directories, also with an address-translating runner; and, for gRPC with and without multiplexing, brokered listeners of both sides reached the broker's own way -- DialWithOptions on the legitimate session, knock included -- with only the transport credentials replaced by the intruder's) x intruder credential class (plaintext, TLS without client certificate, TLS with a fresh self-signed certificate of another name, TLS with a certificate of identical subject/SAN but another key, the latter also verifying against its own CA), fresh keys per case, each attempt speaking the real protocol (yamux+net/rpc Control.Ping, gRPC health check, PingPong) and each case carrying a positive control by the legitimate peer; plus plugins started directly with PLUGIN_CLIENT_CERT in unusual shapes (certificate followed / preceded by a PEM block that is not a certificate, by a key block, by text, two certificates, no certificate at all) attacked on their main listener by the same intruder classes; plus a brokered address (no multiplexing) at which somebody presenting another certificate listens while the host dials it and keeps retrying for 5 s; plus plugins that serve with a TLSProvider of their own (no client authentication) launched by an AutoMTLS host: either the host gets no working session, or intruders must be refused on that listener; plus impostor plugins that announce certificate A and serve certificate B, plaintext, or B with A appended to the chain (A with and without the name the host dials) with the real protocol. Class = protocol|path|launch",
		Assumptions: []string{"a case without a successful positive control is inconclusive, never 'held'", "samples credential classes; says nothing about TLS itself"},
	})
}
