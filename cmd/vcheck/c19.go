package main

import (
	"fmt"
	"math/rand"
	"sort"
	"strings"
	"time"

	"github.com/anishathalye/porcupine"
	"verif/spec"
)

var c19Ops = []string{"Start", "Client", "Protocol", "ReattachConfig", "ID", "Exited", "Kill"}
var c19Modes = []string{"ok", "ok-nolisten", "fail-line", "fail-timeout", "fail-exit", "fail-proto", "fail-cert", "prelaunch-fail", "proc-ok", "proc-fail", "cmd-ok", "cmd-fail"}

func c19Gen(r *rand.Rand, tier string) []spec.Case {
	var out []spec.Case
	add := func(kind string, p spec.C19Case) { out = append(out, spec.Case{Kind: kind, P: spec.MustJSON(p)}) }
	weights := []string{"Start", "Start", "Client", "Client", "Protocol", "ReattachConfig", "ID", "Exited", "Kill", "Kill"}
	nseq, ncon := 150, 200
	if tier == "thorough" {
		nseq, ncon = 12000, 18000
	}
	modeFor := func(i int) string {
		// scripted modes are cheap: 3 of 4 cases; real processes the rest
		if i%4 == 3 {
			return pick(r, c19Modes[8:])
		}
		return pick(r, c19Modes[:8])
	}
	for i := 0; i < nseq; i++ {
		n := 1 + r.Intn(10)
		ops := make([]string, n)
		for j := range ops {
			ops[j] = pick(r, weights)
		}
		add("seq", spec.C19Case{Mode: modeFor(i), Threads: [][]string{ops}, Jitter: r.Intn(2) == 0})
	}
	for i := 0; i < ncon; i++ {
		g := 2 + r.Intn(7)
		th := make([][]string, g)
		for k := range th {
			n := 1 + r.Intn(4)
			for j := 0; j < n; j++ {
				th[k] = append(th[k], pick(r, weights))
			}
		}
		add("conc", spec.C19Case{Mode: modeFor(i), Threads: th, Jitter: r.Intn(2) == 0})
	}
	// Start succeeds, Client() fails, Kill, and everything again: nothing may be launched a second time
	add("seq", spec.C19Case{Mode: "ok-nolisten", Threads: [][]string{{"Start", "Client", "ReattachConfig", "Kill", "Client", "Start", "Protocol", "ReattachConfig"}}})
	add("seq", spec.C19Case{Mode: "ok-nolisten", Threads: [][]string{{"Start", "Kill", "Start", "ReattachConfig", "Client"}}})
	add("seq", spec.C19Case{Mode: "ok-nolisten", Threads: [][]string{{"Client", "Kill", "Kill", "Protocol", "Start"}}})
	// Start succeeds, nothing listens yet: Client() fails; then the plugin starts listening ("Listen" is the
	// harness' own step, not a client call) and Client() must succeed and keep returning that one client
	nl := 6
	if tier == "thorough" {
		nl = 300
	}
	add("seq", spec.C19Case{Mode: "ok-latelisten", Threads: [][]string{{"Start", "Client", "Listen", "Client", "Client", "Protocol", "Client", "ReattachConfig"}}})
	add("seq", spec.C19Case{Mode: "ok-latelisten", Threads: [][]string{{"Client", "Client", "Listen", "Client", "Start", "Client", "ID"}}})
	for i := 0; i < nl; i++ {
		th := [][]string{{"Client", "Listen", "Client", "Client"}}
		for k := 0; k < 1+r.Intn(4); k++ {
			var ops []string
			for j := 0; j < 2+r.Intn(3); j++ {
				ops = append(ops, pick(r, []string{"Client", "Client", "Start", "Protocol", "ReattachConfig", "Exited"}))
			}
			th = append(th, ops)
		}
		add("conc", spec.C19Case{Mode: "ok-latelisten", Threads: th, Jitter: i%2 == 0})
	}
	// the D11 shape explicitly: failed first Start, then everything at once
	for _, m := range []string{"fail-line", "fail-timeout", "fail-exit", "fail-proto", "fail-cert", "proc-fail"} {
		th := [][]string{{"Start"}}
		add("seq", spec.C19Case{Mode: m, Threads: [][]string{{"Start", "Start", "Client", "Protocol", "Kill", "Start"}}})
		for k := 0; k < 8; k++ {
			th = append(th, []string{pick(r, weights[:6]), pick(r, weights)})
		}
		add("conc", spec.C19Case{Mode: m, Threads: th})
	}
	return out
}

type c19In struct{ Op string }

type c19State struct {
	Phase int // 0 new, 1 started, 2 failed, 3 killed (after started), 4 killed (after failed)
	Addr  string
	Ptr   string
	// Listening (mode ok-latelisten): the plugin has started to listen at the announced address
	Listening bool
}

func c19Model(mode string) porcupine.Model {
	firstOK := mode == "ok" || mode == "proc-ok" || mode == "cmd-ok" || mode == "ok-nolisten" || mode == "ok-latelisten"
	lateListen := mode == "ok-latelisten"
	noListen := mode == "ok-nolisten" // Start succeeds, the protocol client can never be built
	prelaunch := mode == "prelaunch-fail"
	// begin: effect of an implicit Start on a new client
	begin := func(s c19State, ok bool) (bool, c19State) {
		switch {
		case prelaunch:
			return !ok, s
		case firstOK:
			if !ok {
				return false, s
			}
			s.Phase = 1
			return true, s
		default:
			if ok {
				return false, s
			}
			s.Phase = 2
			return true, s
		}
	}
	return porcupine.Model{
		Init: func() any { return c19State{} },
		Step: func(st, in, out any) (bool, any) {
			s := st.(c19State)
			op := in.(c19In).Op
			o := out.(spec.C19Res)
			started := s.Phase == 1 || s.Phase == 3
			failed := s.Phase == 2 || s.Phase == 4
			switch op {
			case "Start":
				if s.Phase == 0 {
					ok, ns := begin(s, o.OK)
					if ok && o.OK {
						ns.Addr = o.Addr
					}
					return ok, ns
				}
				if failed {
					return !o.OK, s
				}
				if !o.OK {
					return false, s
				}
				if s.Addr == "" {
					s.Addr = o.Addr
				}
				return s.Addr == o.Addr, s
			case "Listen":
				s.Listening = true
				return true, s
			case "Client":
				if lateListen && !s.Listening {
					// nothing listens yet: the implicit Start takes effect, the call itself fails
					if s.Phase == 0 {
						s.Phase = 1
					}
					return !o.OK, s
				}
				if lateListen && s.Phase == 0 {
					// (a Client() that is the first call and runs after the listener came up)
					if !o.OK {
						return false, s
					}
					s.Phase, s.Ptr = 1, o.Ptr
					return true, s
				}
				if noListen {
					// the implicit Start takes effect, the call itself fails, every time
					if s.Phase == 0 {
						s.Phase = 1
					}
					return !o.OK, s
				}
				if s.Phase == 0 {
					ok, ns := begin(s, o.OK)
					if ok && o.OK {
						ns.Ptr = o.Ptr
					}
					return ok, ns
				}
				if failed {
					return !o.OK, s
				}
				if !o.OK {
					return false, s
				}
				if s.Ptr == "" {
					s.Ptr = o.Ptr
				}
				return s.Ptr == o.Ptr, s
			case "Protocol":
				if s.Phase == 0 {
					return begin(s, o.Str != "")
				}
				if failed {
					return o.Str == "", s
				}
				return o.Str == "netrpc", s
			case "ReattachConfig":
				if !started {
					return !o.Bool, s
				}
				if !o.Bool {
					return false, s
				}
				if s.Addr == "" {
					s.Addr = o.Addr
				}
				return s.Addr == o.Addr, s
			case "ID":
				if s.Phase == 0 {
					return o.Str == "", s
				}
				return true, s
			case "Exited":
				switch s.Phase {
				case 0:
					return !o.Bool, s
				case 3, 4:
					return o.Bool, s
				}
				return true, s
			case "Kill":
				switch s.Phase {
				case 1:
					s.Phase = 3
				case 2:
					s.Phase = 4
				}
				return true, s
			}
			return false, s
		},
		Equal: func(a, b any) bool { return a.(c19State) == b.(c19State) },
		DescribeOperation: func(in, out any) string {
			o := out.(spec.C19Res)
			return fmt.Sprintf("%s -> ok=%v addr=%s ptr=%s str=%q bool=%v err=%q", in.(c19In).Op, o.OK, o.Addr, o.Ptr, o.Str, o.Bool, trunc(o.Err, 40))
		},
	}
}

func c19Judge(c spec.Case, evs []spec.Event, d *Death) CaseResult {
	var p spec.C19Case
	jsonUnmarshal(c.P, &p)
	opset := map[string]bool{}
	nops := 0
	for _, t := range p.Threads {
		for _, o := range t {
			opset[o] = true
			nops++
		}
	}
	var os []string
	for o := range opset {
		os = append(os, o[:2])
	}
	sort.Strings(os)
	res := CaseResult{Verdict: "held", Counters: map[string]int{}}
	res.Class = fmt.Sprintf("%s | threads=%d | ops=%s", p.Mode, len(p.Threads), strings.Join(os, ""))
	res.Sample = map[string]any{"mode": p.Mode, "threads": p.Threads}
	viol := func(key, msg string) {
		res.Verdict = "violated"
		res.Violations = append(res.Violations, Violation{Key: "C19:" + key, Msg: fmt.Sprintf("%s [mode=%s threads=%v]", msg, p.Mode, p.Threads)})
	}
	if d != nil {
		key := "host-died"
		switch {
		case strings.Contains(d.Stderr, "WaitGroup is reused"):
			key = "host-died:waitgroup-reused-after-failed-start"
		case strings.HasPrefix(d.ExitErr, "watchdog"):
			key = "host-hung"
		case strings.HasPrefix(d.ExitErr, "start:") || strings.HasPrefix(d.ExitErr, "child ended without"):
			return CaseResult{Verdict: "inconclusive", Inconcl: d.ExitErr}
		}
		viol(key, "host process died: "+d.ExitErr+"\n"+trunc(d.Stderr, 2500))
		return res
	}
	var end spec.C19End
	if !decodeD(findEv(evs, "obs", "end"), &end) {
		return CaseResult{Verdict: "inconclusive", Inconcl: "no end observation"}
	}
	res.Counters["ops"] += nops
	res.Counters["launches"] += end.Launches
	res.Counters["plugin_dirs_left"] += end.PluginDirs
	failMode := strings.Contains(p.Mode, "fail")
	if end.Launches > 1 || end.RunnerFuncs > 1 {
		k := "relaunch"
		if failMode {
			k = "relaunch-after-failed-start"
		}
		viol(k, fmt.Sprintf("plugin launched %d times (RunnerFunc invoked %d times) by one Client", end.Launches, end.RunnerFuncs))
	}
	if !end.FinalKillOK {
		viol("kill-hang", "final Kill did not return within 60s\n"+end.Dump)
	}
	// history
	type open struct {
		op string
		t  int64
	}
	pend := map[string]open{}
	var ops []porcupine.Operation
	gid := map[string]int{}
	addrs, ptrs := map[string]bool{}, map[string]bool{}
	for _, e := range evs {
		switch e.Ev {
		case "call":
			pend[e.G] = open{e.Op, e.T}
		case "ret":
			o := pend[e.G]
			var r spec.C19Res
			decodeD(&e, &r)
			if r.Hung {
				viol("call-hung:"+e.Op, e.Op+" did not return within 60s")
				continue
			}
			if r.Panic != "" {
				viol("panic:"+e.Op, e.Op+" panicked: "+r.Panic)
				continue
			}
			if _, ok := gid[e.G]; !ok {
				gid[e.G] = len(gid)
			}
			ops = append(ops, porcupine.Operation{ClientId: gid[e.G], Input: c19In{e.Op}, Call: o.t, Output: r, Return: e.T})
			if e.Op == "Start" && r.OK {
				addrs[r.Addr] = true
			}
			if e.Op == "Client" && r.OK {
				ptrs[r.Ptr] = true
			}
		}
	}
	if len(addrs) > 1 {
		viol("start-addresses-differ", fmt.Sprintf("successful Start calls returned different addresses: %v", addrs))
	}
	if len(ptrs) > 1 {
		viol("client-values-differ", fmt.Sprintf("successful Client calls returned %d different protocol clients", len(ptrs)))
	}
	if len(res.Violations) == 0 && len(ops) > 0 {
		r, info := porcupine.CheckOperationsVerbose(c19Model(p.Mode), ops, 20*time.Second)
		switch r {
		case porcupine.Illegal:
			var sb strings.Builder
			for _, o := range ops {
				fmt.Fprintf(&sb, "  g%d [%d..%d] %s\n", o.ClientId, o.Call/1000, o.Return/1000, c19Model(p.Mode).DescribeOperation(o.Input, o.Output))
			}
			_ = info
			k := "history-not-linearizable"
			if failMode {
				k = "history-not-linearizable:after-failed-start"
			}
			viol(k, "call history is not linearizable against the life-cycle model (launch at most once, accessors pure):\n"+sb.String())
		case porcupine.Unknown:
			return CaseResult{Verdict: "inconclusive", Inconcl: "porcupine timed out", Class: res.Class}
		}
		res.Counters["histories_checked"]++
	}
	return res
}

func c19Finish(r *Run) {
	r.raceSummary("C19")
	if len(r.Cases) > 50 && r.Counters["histories_checked"] < len(r.Cases)/2 && len(r.Viol) == 0 {
		r.Inconcl = append(r.Inconcl, fmt.Sprintf("too few histories checked: %d of %d", r.Counters["histories_checked"], len(r.Cases)))
	}
}

func init() {
	register(&Prop{
		ID: "C19", Level: "exploration", Race: true, TestName: "TestC19",
		Gen: c19Gen, Batch: 40, Children: 10, PerCase: 4 * time.Second, Base: 120 * time.Second,
		Judge: c19Judge, Finish: c19Finish,
		Rule: "cases = programs over {Start, Client, Protocol, ReattachConfig, ID, Exited, Kill}: sequential (1-10 ops) and concurrent (2-8 goroutines x 1-4 ops, half with hook jitter) x first-Start outcome/launch method (scripted runner with a live in-process server, bad line, timeout, early exit, failure before launch, custom runner around a real process ok/fail, Cmd ok/fail). Oracles: launch counters, address/client identity, porcupine linearizability of the call/return history against a sequential life-cycle model, race-detector reports attributed to go-plugin by accessing frame. Class = (mode, #goroutines, set of ops)",
		Assumptions: []string{
			"Kill on a client that was never started is a no-op; a later Start is then the first launch (the statement's 'again')",
			"ID and Exited are left unconstrained by the model while a Kill may be in progress; Exited must be true once a Kill of a launched client has returned",
			"a Start that failed before anything was launched (checksum / option conflict) may be retried",
		},
	})
}
