package main

import (
	"fmt"
	"math/rand"
	"strings"
	"time"

	"verif/spec"
)

func c09Gen(r *rand.Rand, tier string) []spec.Case {
	var out []spec.Case
	add := func(kind string, steps ...string) {
		// every other gRPC-kind case ends with a close that races with listener announcements
		cr := kind != "mux" && len(out)%2 == 0
		// ... and every third one with the plugin's server going away before the client is closed
		pg := kind != "mux" && len(out)%3 == 1
		out = append(out, spec.Case{Kind: kind, P: spec.MustJSON(spec.C09Case{Kind: kind, Steps: steps, CloseRace: cr && !pg, PeerGoneFirst: pg})})
	}
	sides := []string{"host", "plugin"}
	common := []string{"dial-noaccept", "accept-nodial", "dial-twice", "accept-timeout-then-dial"}
	// every single step, each kind, each side
	for _, k := range []string{"mux", "grpc", "grpcmux"} {
		for _, s := range sides {
			for _, st := range common {
				add(k, st+":"+s)
			}
			add(k, "dial-timeout-then-accept:"+s)
		}
	}
	for _, s := range sides {
		add("mux", "accept-at-expiry:"+s)
		add("mux", "staggered-dials-then-accept:"+s)
		add("mux", "matched-then-dial-again:"+s)
		add("mux", "matched-then-dial-again-held:"+s)
		add("mux", "matched-then-pair-again-held:"+s)
		add("grpc", "staggered-dials-then-accept:"+s)
		add("grpc", "dial-burst-noaccept:"+s)
		add("mux", "dial-burst-noaccept:"+s)
		add("grpc", "accept-twice:"+s)
		add("grpc", "dial-timeout-then-accept-twice:"+s)
		add("grpcmux", "accept-twice:"+s)
		add("grpcmux", "late-accept-during-other-knock:"+s)
	}
	// the plugin-side MuxBroker of a real RPCServer facing a peer that speaks the wire protocol by hand: streams
	// whose id header is truncated before they are closed, with genuine dispenses in between and afterwards
	for _, n := range []int{4, 12, 30} {
		out = append(out, spec.Case{Kind: "muxraw", P: spec.MustJSON(spec.C09Case{Kind: "muxraw", Steps: []string{fmt.Sprintf("raw-truncated-headers:%d", n)}})})
	}
	// random histories of length 2-4 (the stale-knock step of grpcmux only in its dedicated single-step cases above)
	n := 12
	if tier == "thorough" {
		n = 1500
	}
	for i := 0; i < n; i++ {
		k := pick(r, []string{"mux", "mux", "grpc", "grpcmux"})
		pool := append([]string(nil), common...)
		if k == "mux" {
			pool = append(pool, "accept-at-expiry", "dial-timeout-then-accept", "staggered-dials-then-accept", "matched-then-dial-again", "matched-then-dial-again-held", "matched-then-pair-again-held")
		}
		if k == "grpcmux" && tier == "thorough" {
			pool = append(pool, "late-accept-during-other-knock")
		}
		if k == "grpc" {
			pool = append(pool, "dial-timeout-then-accept", "accept-twice", "dial-timeout-then-accept-twice")
		}
		m := 2 + r.Intn(3)
		var steps []string
		for j := 0; j < m; j++ {
			steps = append(steps, pick(r, pool)+":"+pick(r, sides))
		}
		add(k, steps...)
	}
	return out
}

func c09Judge(c spec.Case, evs []spec.Event, d *Death) CaseResult {
	var p spec.C09Case
	jsonUnmarshal(c.P, &p)
	hist := p.Kind + ":[" + strings.Join(p.Steps, " ; ") + "]"
	res := CaseResult{Verdict: "held", Counters: map[string]int{}}
	res.Class = hist
	if len(p.Steps) > 1 {
		// class of a random history: kind + multiset of step names
		var ns []string
		for _, s := range p.Steps {
			n, _, _ := strings.Cut(s, ":")
			ns = append(ns, n)
		}
		res.Class = p.Kind + ":{" + strings.Join(ns, ",") + "}"
	}
	viol := func(key, msg string) {
		res.Verdict = "violated"
		res.Violations = append(res.Violations, Violation{Key: "C09:" + key, Msg: msg + " [history " + hist + "]"})
	}
	if d != nil {
		return deathResult(d, "C09")
	}
	if e := findEv(evs, "note", "pair-error"); e != nil {
		return CaseResult{Verdict: "inconclusive", Inconcl: "could not set up connection pair: " + string(e.D)}
	}
	var steps []spec.C09Step
	var fresh []spec.C09Fresh
	for i := range evs {
		e := &evs[i]
		if e.Ev != "ret" {
			continue
		}
		if e.Op == "fresh" {
			var f spec.C09Fresh
			decodeD(e, &f)
			fresh = append(fresh, f)
		} else {
			var s spec.C09Step
			decodeD(e, &s)
			steps = append(steps, s)
		}
	}
	if len(steps) != len(p.Steps) || len(fresh) != 2 {
		return CaseResult{Verdict: "inconclusive", Inconcl: fmt.Sprintf("incomplete log: %d steps, %d fresh", len(steps), len(fresh))}
	}
	sample := map[string]any{"history": hist}
	var obs []string
	for _, s := range steps {
		name, _, _ := strings.Cut(s.Step, ":")
		res.Counters["step:"+name]++
		obs = append(obs, fmt.Sprintf("%s -> %dms %v %s", s.Step, s.Ms, s.Errs, s.Note))
		if !s.Returned {
			viol("step-hung:"+hist, fmt.Sprintf("step %s: a broker call had not returned after %d ms (nominal bound 5 s)\n%s", s.Step, s.Ms, s.Dump))
			continue
		}
		// unmatched operations must fail, not succeed
		switch name {
		case "raw-truncated-headers":
			for _, e := range s.Errs {
				viol("broker-blocked-by-truncated-headers", fmt.Sprintf("step %s: %s", s.Step, e))
			}
		case "dial-burst-noaccept":
			for _, e := range s.Errs {
				if strings.HasPrefix(e, "burst-ok: ") && e != "burst-ok: 0" {
					viol("unmatched-dial-succeeded", fmt.Sprintf("step %s: dials with no accept succeeded (%s of 160)", s.Step, strings.TrimPrefix(e, "burst-ok: ")))
				}
			}
		case "dial-noaccept", "dial-twice":
			for _, e := range s.Errs {
				if e == "" {
					viol("unmatched-dial-succeeded", fmt.Sprintf("step %s: a dial with no accept succeeded", s.Step))
				}
			}
		case "late-accept-during-other-knock":
			for _, e := range s.Errs {
				if e == "dialA: " || e == "dialB: " {
					viol("unmatched-dial-succeeded", fmt.Sprintf("step %s: a dial with no accept succeeded (%v)", s.Step, s.Errs))
				}
			}
			if s.Note != "" {
				viol("accept-and-serve-stuck", s.Step+": "+s.Note)
			}
		case "dial-timeout-then-accept-twice":
			if len(s.Errs) > 0 && s.Errs[0] == "dial: " {
				viol("unmatched-dial-succeeded", fmt.Sprintf("step %s: a dial with no accept succeeded", s.Step))
			}
		case "matched-then-dial-again", "matched-then-dial-again-held", "matched-then-pair-again-held":
			for _, e := range s.Errs {
				switch {
				case (strings.HasPrefix(e, "accept2: ") || strings.HasPrefix(e, "dial3: ")) && !strings.HasSuffix(e, ": "):
					viol("reused-id-pair-failed", fmt.Sprintf("step %s: an id was accepted and dialled again right after a completed pair on it, and did not connect: %s", s.Step, e))
				case (strings.HasPrefix(e, "accept: ") || strings.HasPrefix(e, "dial1: ")) && !strings.HasSuffix(e, ": "):
					viol("matched-pair-failed", fmt.Sprintf("step %s: an accept that was waiting and its dial did not connect: %s", s.Step, e))
				case e == "dial2: ":
					viol("unmatched-dial-succeeded", fmt.Sprintf("step %s: a second dial to an id whose accept had already been served succeeded with no accept", s.Step))
				}
			}
		case "dial-timeout-then-accept":
			// (gRPC kinds) the id is accepted after the first dial gave up and dialled again 300 ms later:
			// that accept and that dial are well inside each other's window and must connect
			if strings.HasPrefix(s.Note, "redial: ") && s.Note != "redial: " {
				viol("redial-after-late-accept-failed", fmt.Sprintf("step %s: the id was accepted after a timed-out dial and dialled again 300 ms later, which failed: %s", s.Step, strings.TrimPrefix(s.Note, "redial: ")))
			} else if strings.HasPrefix(s.Note, "redial: ") {
				res.Counters["redials_after_late_accept_ok"]++
			}
		case "accept-nodial":
			if p.Kind == "mux" && len(s.Errs) > 0 && s.Errs[0] == "" {
				viol("unmatched-accept-succeeded", fmt.Sprintf("step %s: an accept with no dial succeeded", s.Step))
			}
			if len(s.Errs) > 0 && strings.Contains(s.Errs[0], "did not return") {
				viol("accept-and-serve-stuck", s.Step+": "+s.Errs[0])
			}
		}
		if time.Duration(s.Ms)*time.Millisecond > 12*time.Second && name != "accept-at-expiry" && name != "staggered-dials-then-accept" && name != "dial-timeout-then-accept" && name != "accept-timeout-then-dial" {
			res.Slow = fmt.Sprintf("%s took %d ms", s.Step, s.Ms)
		}
	}
	for _, f := range fresh {
		res.Counters["fresh_pairs"]++
		obs = append(obs, fmt.Sprintf("fresh(%s dials) -> ok=%v %dms %s", f.Dir, f.OK, f.Ms, trunc(f.Err, 80)))
		switch {
		case !f.Returned:
			viol("fresh-pair-hung:"+hist, fmt.Sprintf("after the history, a matched accept/dial pair on a fresh id (%s dials) had not completed after %d ms\n%s", f.Dir, f.Ms, f.Dump))
		case !f.OK:
			viol("fresh-pair-failed:"+hist, fmt.Sprintf("after the history, a matched accept/dial pair on a fresh id (%s dials) failed: %s", f.Dir, f.Err))
		default:
			res.Counters["fresh_pairs_ok"]++
		}
	}
	var end spec.C09End
	if decodeD(findEv(evs, "obs", "end"), &end) && !end.ClosedOK {
		viol("close-hung", "closing the client did not return within 20 s")
	}
	if end.PeerGone {
		res.Counters["closes_after_the_peer_went_away"]++
		if end.PendingStuck {
			viol("accept-stuck-after-close", "a host-side AcceptAndServe that was pending when the plugin's server went away had not returned 20 s after the client was closed\n"+end.PendingDump)
		}
	}
	if end.CloseRaced {
		res.Counters["closes_raced_with_accepts"]++
		if end.StormStuck > 0 {
			viol("accept-stuck-after-close", fmt.Sprintf("%d of 8 goroutines that were announcing listeners (Accept) when the client was closed had not returned 20 s later\n%s", end.StormStuck, end.StormDump))
		}
	}
	sample["observed"] = obs
	res.Sample = sample
	return res
}

func c09Finish(r *Run) {
	hooks := map[string]int{}
	for i := range r.Batch {
		e := &r.Batch[i]
		switch e.Op {
		case "leak":
			var l spec.C09Leak
			decodeD(e, &l)
			r.Counters["goroutines_at_end"] += l.Total
			if l.BrokerGoroutines > 0 && len(r.Viol) == 0 {
				r.AddViolation(-1, "C09:broker-goroutines-remain", fmt.Sprintf("%d goroutines with broker frames remain %d ms after every client was closed, e.g.\n%s", l.BrokerGoroutines, l.WaitedMs, l.Sample))
			}
			r.Counters["broker_goroutines_left"] += l.BrokerGoroutines
		case "hooks":
			var h map[string]int
			decodeD(e, &h)
			for k, v := range h {
				hooks[k] += v
			}
		}
	}
	r.Extra["hook_hits"] = hooks
	r.raceSummary("C09")
	if len(r.Cases) > 10 {
		for _, need := range []string{"mux.timeoutWait.fired", "mux.timeoutWait.accepted", "mux.accept.gotConn", "grpcbroker.knock.sent", "grpcbroker.run.recv"} {
			if hooks[need] == 0 {
				r.Inconcl = append(r.Inconcl, "hook point never hit: "+need)
			}
		}
		if r.Counters["fresh_pairs"] < len(r.Cases) {
			r.Inconcl = append(r.Inconcl, "too few fresh pairs attempted")
		}
	}
}

func init() {
	register(&Prop{
		ID: "C09", Level: "exploration", Race: true, TestName: "TestC09",
		Gen: c09Gen, Batch: 64, Children: 4, PerCase: 3 * time.Second, Base: 240 * time.Second,
		Judge: c09Judge, Finish: c09Finish,
		Rule: "cases = histories over {dial-noaccept, accept-nodial, dial-twice (same id), dial-burst-noaccept (160 dials at once to distinct ids nobody accepts), staggered-dials-then-accept (second dial half-way through the first one's window, then an unmatched accept after the first expired), dial-timeout-then-accept (late accept), accept-timeout-then-dial (late dial), accept-at-expiry (Accept lined up with the expiry of a parked connection through hook points), matched-then-dial-again-held / matched-then-pair-again-held (the id of a completed pair is dialled, or accepted and dialled, again while the goroutine that cleans up after that pair is held at hook point mux.timeoutWait.accepted), raw-truncated-headers (kind muxraw: a hand-rolled yamux peer of an in-process RPCServer opens n streams and closes each after 0..3 header bytes, with genuine Dispense+dial pairs in between and after)} x acting side, on MuxBroker, GRPCBroker and multiplexed GRPCBroker, each on its own in-process connection pair (both ends real go-plugin code), followed by a matched pair on a fresh id in each direction and a close; every single step per kind and side plus random histories of length 2-4. Class = kind + multiset of steps",
		Assumptions: []string{
			"nominal bound 5 s; a call counts as hung only after 40 s (2 x H, H = 20 s) for steps and 20 s for fresh pairs",
			"for GRPCBroker an unmatched accept is an AcceptAndServe that is stopped through its server after 300 ms (Accept itself returns a listener at once)",
			"multiplexed histories respect the documented one-outstanding-accept rule; the stale-knock history (dial times out, late accept, redial) is generated only as a dedicated single-step case",
			"plugin side is in the same process (plugin.TestPluginRPCConn / TestPluginGRPCConn); goroutine-leak check is process-wide after all pairs are closed",
		},
	})
}
