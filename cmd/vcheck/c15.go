package main

import (
	"fmt"
	"math/rand"
	"sort"
	"strings"
	"time"

	"github.com/anishathalye/porcupine"
	"verif/spec"
)

func c15Gen(r *rand.Rand, tier string) []spec.Case {
	var out []spec.Case
	n := 36
	if tier == "thorough" {
		n = 2000
	}
	for i := 0; i < n; i++ {
		proto := []string{"netrpc", "grpc"}[i%2]
		c := spec.C15Case{Proto: proto, Mode: "proc", ConcOps: 0}
		nc := 1 // clients so far (A)
		alive := true
		steps := []string{}
		val := 0
		m := 2 + r.Intn(7)
		for j := 0; j < m; j++ {
			switch x := r.Intn(10); {
			case x < 3:
				if r.Intn(4) == 0 && nc > 1 {
					steps = append(steps, "reattach2")
				} else {
					steps = append(steps, "reattach")
				}
				if alive {
					nc++
				}
			case x < 5:
				val++
				steps = append(steps, fmt.Sprintf("put:%d,%s=v%d", r.Intn(nc), pick(r, []string{"a", "b"}), val))
			case x < 7:
				steps = append(steps, fmt.Sprintf("get:%d,%s", r.Intn(nc), pick(r, []string{"a", "b"})))
			case x < 8 && nc > 1 && alive:
				c.ConcOps = 20 + r.Intn(40)
				steps = append(steps, "conc")
			case x < 9 && alive && j > 1:
				steps = append(steps, fmt.Sprintf("kill:%d", r.Intn(nc)))
				alive = false
			default:
				steps = append(steps, fmt.Sprintf("get:%d,a", r.Intn(nc)))
			}
		}
		if alive && r.Intn(2) == 0 {
			if r.Intn(2) == 0 {
				steps = append(steps, fmt.Sprintf("kill:%d", r.Intn(nc)), "reattach")
			} else {
				steps = append(steps, "sigkill", "reattach", "reattach2")
			}
		}
		c.Steps = steps
		out = append(out, spec.Case{Kind: "proc", P: spec.MustJSON(c)})
	}
	// test mode: in-process server, own host child each
	nt := 8
	if tier == "thorough" {
		nt = 60
	}
	for i := 0; i < nt; i++ {
		proto := []string{"netrpc", "grpc"}[i%2]
		var steps []string
		switch i % 4 {
		case 0:
			steps = []string{"reattach", "put:0,a=1", "kill:0", "reattach", "get:1,a", "cancel"}
		case 1:
			steps = []string{"reattach", "reattach2", "put:1,a=1", "kill:1", "reattach", "get:2,a", "kill:0", "cancel"}
		case 2:
			steps = []string{"reattach", "reattach", "conc", "kill:0", "kill:1", "reattach", "cancel"}
		default:
			steps = []string{"reattach", "reattach2", "reattach2", "kill:2", "get:0,a", "cancel"}
		}
		// after the server has stopped, reattaching must fail: through the very config object that was used
		// before, and through a second-generation config taken from a reattached client
		steps = append(steps, "reattach", "reattach2")
		c := spec.C15Case{Proto: proto, Mode: "testmode", Steps: steps, ConcOps: 30, VersionSkew: i%2 == 1}
		out = append(out, spec.Case{Kind: "solo:testmode", P: spec.MustJSON(c)})
	}
	return out
}

type regIn struct {
	Put bool
	Val string
}
type regOut struct {
	Val   string
	Found bool
}

func c15Judge(c spec.Case, evs []spec.Event, d *Death) CaseResult {
	var p spec.C15Case
	jsonUnmarshal(c.P, &p)
	res := CaseResult{Verdict: "held", Counters: map[string]int{}}
	var names []string
	for _, s := range p.Steps {
		n, _, _ := strings.Cut(s, ":")
		names = append(names, n)
	}
	res.Class = fmt.Sprintf("%s|%s|%s", p.Mode, p.Proto, strings.Join(names, ","))
	viol := func(key, msg string) {
		res.Verdict = "violated"
		res.Violations = append(res.Violations, Violation{Key: "C15:" + key, Msg: fmt.Sprintf("%s [mode=%s proto=%s steps=%v]", msg, p.Mode, p.Proto, p.Steps)})
	}
	if d != nil {
		if strings.HasPrefix(d.ExitErr, "start:") || strings.HasPrefix(d.ExitErr, "child ended without") {
			return CaseResult{Verdict: "inconclusive", Inconcl: d.ExitErr}
		}
		k := "host-died"
		if p.Mode == "testmode" {
			k = "testmode-serving-process-killed"
		}
		viol(k, "the host process (which, in test mode, is also the serving process) died: "+d.ExitErr+"\n"+trunc(d.Stderr, 1500))
		return res
	}
	var o spec.C15Obs
	if !decodeD(findEv(evs, "obs", "c15end"), &o) {
		return CaseResult{Verdict: "inconclusive", Inconcl: "no observation"}
	}
	if o.SetupErr != "" {
		return CaseResult{Verdict: "inconclusive", Inconcl: "setup: " + o.SetupErr}
	}
	res.Sample = map[string]any{"mode": p.Mode, "proto": p.Proto, "steps": o.Steps, "concurrent_ops": len(o.Ops)}
	// reference state machine
	alive := true
	store := map[string]string{}
	serverStopped := false
	for _, s := range o.Steps {
		name, arg, _ := strings.Cut(s.Step, ":")
		res.Counters["steps"]++
		if !s.Returned {
			viol("step-hung:"+name, s.Step+" did not return within 30 s")
			continue
		}
		switch name {
		case "reattach", "reattach2":
			if alive && !serverStopped {
				if !s.OK {
					viol("reattach-failed", fmt.Sprintf("%s to a running plugin failed: %s", s.Step, s.Err))
					break
				}
				if s.Instance != o.InstanceA {
					viol("other-instance", fmt.Sprintf("the reattached client reached instance %s, the plugin is %s", s.Instance, o.InstanceA))
				}
				if s.Protocol != o.ProtoA {
					viol("protocol-differs", fmt.Sprintf("reattached client speaks %q, the plugin %q", s.Protocol, o.ProtoA))
				}
				res.Counters["reattaches"]++
			} else {
				if !s.OK && (s.RetryOK || s.RetryProtocol != "") {
					viol("refused-reattach-accepted-on-retry", fmt.Sprintf("%s was refused (%s) but the same client then reports Start err=%q Protocol()=%q", s.Step, trunc(s.Err, 60), s.RetryErr, s.RetryProtocol))
				}
				if s.OK {
					viol("reattached-to-dead", "reattach succeeded although nothing is listening")
				} else if !s.NotFound {
					viol("wrong-error-after-death", "reattach with nothing listening must fail with the process-not-found error, got: "+s.Err)
				} else {
					res.Counters["reattach_after_death"]++
				}
			}
		case "put":
			if alive && !serverStopped {
				if !s.OK {
					viol("call-failed", s.Step+" failed: "+s.Err)
				} else {
					_, kv, _ := strings.Cut(arg, ",")
					k, v, _ := strings.Cut(kv, "=")
					store[k] = v
				}
			} else if s.OK {
				viol("call-succeeded-after-death", s.Step+" succeeded after the plugin was killed")
			}
		case "get":
			if alive && !serverStopped {
				_, k, _ := strings.Cut(arg, ",")
				if !s.OK {
					viol("call-failed", s.Step+" failed: "+s.Err)
				} else if len(o.Ops) == 0 || k == "a" || k == "b" {
					want, ok := store[k]
					if s.Found != ok || s.Value != want {
						viol("state-not-shared", fmt.Sprintf("%s returned (%q,%v); the value written through the other client is (%q,%v)", s.Step, s.Value, s.Found, want, ok))
					}
				}
			} else if s.OK {
				viol("call-succeeded-after-death", s.Step+" succeeded after the plugin was killed")
			}
		case "kill":
			if p.Mode == "proc" {
				if alive {
					if s.State != "gone" {
						viol("kill-left-process", fmt.Sprintf("after %s the plugin process is in state %q", s.Step, s.State))
					}
					if !s.Exited {
						viol("exited-false", "the killing client reports Exited()=false")
					}
				}
				for i, ex := range s.AllExited {
					if !ex {
						viol("other-client-not-exited", fmt.Sprintf("8 s after %s killed the plugin, client %d of the same plugin still reports Exited()=false", s.Step, i))
					}
				}
				alive = false
			} else {
				if !s.Serving {
					viol("testmode-kill-stopped-server", fmt.Sprintf("after %s on a client reattached to a test-mode plugin the server no longer answers", s.Step))
				}
				if s.ClosedCh {
					viol("testmode-kill-stopped-server", "CloseCh was closed by a client's Kill")
				}
				res.Counters["testmode_kills"]++
			}
		case "sigkill":
			for i, ex := range s.AllExited {
				if !ex {
					viol("other-client-not-exited", fmt.Sprintf("8 s after the plugin was killed by a signal, client %d still reports Exited()=false", i))
				}
			}
			alive = false
		case "cancel":
			if !s.ClosedCh {
				viol("closech-not-closed", "CloseCh was not closed within 20 s of cancelling the test-mode context")
			}
			serverStopped = true
		}
	}
	// concurrent phase: per-key register, linearizable only if both clients talk to one instance
	if len(o.Ops) > 0 {
		byKey := map[string][]porcupine.Operation{}
		for _, op := range o.Ops {
			if op.Err != "" {
				viol("conc-call-failed", "concurrent "+op.Kind+" failed: "+op.Err)
				continue
			}
			in := regIn{Put: op.Kind == "put", Val: op.Val}
			byKey[op.Key] = append(byKey[op.Key], porcupine.Operation{ClientId: op.Client, Input: in, Call: op.Call, Output: regOut{op.Got, op.Found}, Return: op.Ret})
		}
		model := porcupine.Model{
			Init: func() any { return regOut{} },
			Step: func(st, in, out any) (bool, any) {
				s, i, o := st.(regOut), in.(regIn), out.(regOut)
				if i.Put {
					return true, regOut{i.Val, true}
				}
				return o == s, s
			},
			Equal: func(a, b any) bool { return a.(regOut) == b.(regOut) },
		}
		var keys []string
		for k := range byKey {
			keys = append(keys, k)
		}
		sort.Strings(keys)
		for _, k := range keys {
			// the register may hold a value from the sequential part
			switch porcupine.CheckOperations(porcupine.Model{Init: func() any {
				if v, ok := store[k]; ok {
					return regOut{v, true}
				}
				return regOut{}
			}, Step: model.Step, Equal: model.Equal}, byKey[k]) {
			case false:
				viol("history-not-linearizable", fmt.Sprintf("concurrent put/get on key %s through the original and the reattached client is not linearizable against one register: the clients do not share one plugin instance", k))
			}
			res.Counters["register_histories"]++
		}
		res.Counters["concurrent_ops"] += len(o.Ops)
	}
	return res
}

func init() {
	register(&Prop{
		ID: "C15", Level: "exploration", Race: true, TestName: "TestC15",
		Gen: c15Gen, Batch: 9, Children: 6, PerCase: 8 * time.Second, Base: 120 * time.Second,
		Judge: c15Judge,
		Finish: func(r *Run) {
			if len(r.Cases) > 20 && (r.Counters["reattaches"] < 10 || r.Counters["reattach_after_death"] == 0 || r.Counters["testmode_kills"] == 0) {
				r.Inconcl = append(r.Inconcl, fmt.Sprintf("too little observed: %v", r.Counters))
			}
		},
		Rule:        "cases = seeded histories (2-10 steps) over {reattach from the original client's config, reattach from a reattached client's own config (second generation), put/get through any client, a concurrent put/get phase through two clients with unique values, kill through any client, reattach after death} for net/rpc and gRPC against a real plugin process; plus in-process test-mode servers (own host process each): reattach, second-generation reattach, Kill on reattached clients, fresh reattach+call afterwards, cancel => CloseCh. Oracles: a reference {alive,dead} state machine with a sequential store, instance-id equality, /proc state, errors.Is(ErrProcessNotFound), and a porcupine per-key register check of the concurrent phase. Class = mode|protocol|step names",
		Assumptions: []string{"instance id = random value minted at plugin start and reported by every call", "CloseCh must close within 20 s of cancel"},
	})
}
