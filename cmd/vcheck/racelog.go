package main

import (
	"fmt"
	"os"
	"regexp"
	"sort"
	"strings"
)

// RaceReport is one "WARNING: DATA RACE" block of a race-detector log.
type RaceReport struct {
	File     string
	Access   [2]string // accessing function of each of the two accesses
	Where    [2]string // file:line of the accessing frames
	Text     string
	InPlugin bool // at least one accessing frame is in go-plugin
	Harness  bool // the other accessing frame is in the harness
}

var (
	reAccess = regexp.MustCompile(`(?m)^(Write|Read|Previous write|Previous read|Atomic write|Atomic read|Previous atomic write|Previous atomic read) at 0x[0-9a-f]+ by (main goroutine|goroutine \d+):$`)
	reLineNo = regexp.MustCompile(`:\d+( \+0x[0-9a-f]+)?$`)
)

func skipFrame(fn string) bool {
	for _, p := range []string{"runtime.", "sync.", "sync/atomic.", "internal/race.", "internal/runtime/", "runtime/"} {
		if strings.HasPrefix(fn, p) {
			return true
		}
	}
	return false
}

const goPluginPkg = "github.com/hashicorp/go-plugin"

func inGoPlugin(fn string) bool {
	if !strings.HasPrefix(fn, goPluginPkg) {
		return false
	}
	rest := fn[len(goPluginPkg):]
	// test/grpc and examples are not the library
	return !strings.HasPrefix(rest, "/test/") && !strings.HasPrefix(rest, "/examples/")
}

// parseRaceLog splits a log file into reports and finds, for each of the two
// accesses, the accessing frame: the first frame not in runtime/sync/atomic.
func parseRaceLog(path string) []RaceReport {
	b, err := os.ReadFile(path)
	if err != nil {
		return nil
	}
	var out []RaceReport
	for _, blk := range strings.Split(string(b), "WARNING: DATA RACE")[1:] {
		if i := strings.Index(blk, "=================="); i >= 0 {
			blk = blk[:i]
		}
		rep := RaceReport{File: path, Text: "WARNING: DATA RACE" + blk}
		lines := strings.Split(blk, "\n")
		n := 0
		for i := 0; i < len(lines) && n < 2; i++ {
			if !reAccess.MatchString(lines[i]) {
				continue
			}
			// frames follow: "  func(args)" then "      file:line +0x.."
			for j := i + 1; j+1 < len(lines); j += 2 {
				fn := strings.TrimSpace(lines[j])
				if fn == "" {
					break
				}
				if k := strings.LastIndex(fn, "("); k > 0 {
					fn = fn[:k]
				}
				if skipFrame(fn) {
					continue
				}
				rep.Access[n] = fn
				rep.Where[n] = strings.TrimSpace(lines[j+1])
				break
			}
			n++
		}
		a, b := inGoPlugin(rep.Access[0]), inGoPlugin(rep.Access[1])
		rep.InPlugin = a || b
		h := func(fn string) bool { return strings.HasPrefix(fn, "verif/") || strings.HasPrefix(fn, "main.") }
		rep.Harness = h(rep.Access[0]) || h(rep.Access[1])
		out = append(out, rep)
	}
	return out
}

func (r RaceReport) Key() string {
	fs := []string{r.Access[0], r.Access[1]}
	sort.Strings(fs)
	return fs[0] + " <-> " + fs[1]
}

// raceSummary parses every collected log, adds a violation per distinct
// go-plugin-attributed accessing-function pair, and records counts.
func (r *Run) raceSummary(prefix string) {
	raw, attributed := 0, 0
	dedup := map[string]RaceReport{}
	harness := map[string]RaceReport{}
	other := map[string]int{}
	for _, f := range r.RaceLogs {
		for _, rep := range parseRaceLog(f) {
			raw++
			switch {
			case rep.InPlugin:
				attributed++
				if _, ok := dedup[rep.Key()]; !ok {
					dedup[rep.Key()] = rep
				}
			case rep.Harness:
				harness[rep.Key()] = rep
			default:
				other[rep.Key()]++
			}
		}
	}
	r.Extra["race_reports_raw"] = raw
	r.Extra["race_reports_in_go_plugin"] = attributed
	r.Extra["race_reports_distinct_in_go_plugin"] = len(dedup)
	var keys []string
	for k := range dedup {
		keys = append(keys, k)
	}
	sort.Strings(keys)
	for _, k := range keys {
		rep := dedup[k]
		nk := reLineNo.ReplaceAllString(k, "")
		msg := fmt.Sprintf("data race inside go-plugin between %s (%s) and %s (%s)", rep.Access[0], rep.Where[0], rep.Access[1], rep.Where[1])
		if rep.Harness {
			msg += " [harness-involved]"
		}
		r.AddViolation(-1, prefix+":race:"+nk, msg+"\n"+trunc(rep.Text, 3500))
	}
	for k, rep := range harness {
		// a race between harness frames only is a harness bug: make the run inconclusive
		r.Inconcl = append(r.Inconcl, "race report in harness code only: "+k+"\n"+trunc(rep.Text, 1500))
	}
	if len(other) > 0 {
		r.Extra["race_reports_elsewhere"] = other
	}
}
