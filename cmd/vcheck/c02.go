package main

import (
	"fmt"
	"math/rand"
	"sort"
	"strconv"
	"strings"
	"time"

	"verif/spec"
)

func subsetOf(mask int) []int {
	var s []int
	for v := 0; v < 5; v++ {
		if mask&(1<<uint(v)) != 0 {
			s = append(s, v)
		}
	}
	return s
}

// c02Side lays a version set out through the versioned and/or legacy fields.
func c02Side(r *rand.Rand, set []int, layout string) spec.C02Side {
	switch layout {
	case "legacy":
		if len(set) == 1 {
			v := set[0]
			return spec.C02Side{Legacy: &v}
		}
		fallthrough
	case "both":
		if len(set) >= 2 {
			i := r.Intn(len(set))
			v := set[i]
			var rest []int
			rest = append(rest, set[:i]...)
			rest = append(rest, set[i+1:]...)
			return spec.C02Side{Versioned: rest, Legacy: &v}
		}
	}
	return spec.C02Side{Versioned: append([]int(nil), set...)}
}

func c02Gen(r *rand.Rand, tier string) []spec.Case {
	var out []spec.Case
	// wide: version numbers with different digit counts (a comparison of their decimal strings orders them
	// differently from their values)
	wideOfDefault := []int{2, 9, 10, 11, 100}
	add := func(kind string, h, p []int, hl, pl string, env string) {
		proto := map[string]string{}
		mode := r.Intn(3) // all netrpc | all grpc | mixed by version
		wideOf := wideOfDefault
		if strings.HasPrefix(kind, "neg") {
			wideOf = []int{-3, -2, -1, 0, 2}
		}
		if strings.HasPrefix(kind, "wide") || strings.HasPrefix(kind, "neg") {
			mp := func(in []int) (out []int) {
				for _, v := range in {
					out = append(out, wideOf[v])
				}
				return
			}
			h, p = mp(h), mp(p)
			for _, v := range wideOf {
				switch mode {
				case 0:
					proto[strconv.Itoa(v)] = "netrpc"
				case 1:
					proto[strconv.Itoa(v)] = "grpc"
				default:
					proto[strconv.Itoa(v)] = pick(r, []string{"netrpc", "grpc"})
				}
			}
			c := spec.C02Case{Host: c02Side(r, h, hl), Plugin: c02Side(r, p, pl), Proto: proto, EnvRaw: env}
			out = append(out, spec.Case{Kind: kind, P: spec.MustJSON(c)})
			return
		}
		for v := 0; v < 5; v++ {
			switch mode {
			case 0:
				proto[strconv.Itoa(v)] = "netrpc"
			case 1:
				proto[strconv.Itoa(v)] = "grpc"
			default:
				proto[strconv.Itoa(v)] = pick(r, []string{"netrpc", "grpc"})
			}
		}
		c := spec.C02Case{Host: c02Side(r, h, hl), Plugin: c02Side(r, p, pl), Proto: proto, EnvRaw: env}
		out = append(out, spec.Case{Kind: kind, P: spec.MustJSON(c)})
	}
	// two launches through one ClientConfig object; the plugin's sets change in between (upgrade / downgrade)
	relaunch := func(n int) {
		// hosts without a legacy set and without version 0, relaunched against a plugin that serves version 0:
		// whatever the first launch left behind must not make the host offer a version it never registered
		for _, h := range [][]int{{3, 4}, {1}, {2, 4}} {
			for _, p2 := range [][]int{{0}, {0, 2}, {0, 1, 3}} {
				p1 := []int{h[len(h)-1]}
				add("relaunch", h, p1, "versioned", "versioned", "")
				c := &out[len(out)-1]
				var cc spec.C02Case
				jsonUnmarshal(c.P, &cc)
				side := c02Side(r, p2, pick(r, []string{"versioned", "legacy", "both"}))
				cc.Plugin2 = &side
				c.P = spec.MustJSON(cc)
			}
		}
		for i := 0; i < n; i++ {
			hm := 1 + r.Intn(31)
			for len(subsetOf(hm)) < 2 {
				hm = 1 + r.Intn(31)
			}
			h := subsetOf(hm)
			// both plugin generations intersect the host's set in (usually) different highest versions
			p1 := []int{h[r.Intn(len(h))]}
			p2 := []int{h[r.Intn(len(h))]}
			if r.Intn(3) == 0 {
				p2 = subsetOf(1 + r.Intn(31))
			}
			add("relaunch", h, p1, pick(r, []string{"both", "both", "versioned", "legacy"}), pick(r, []string{"versioned", "legacy", "both"}), "")
			c := &out[len(out)-1]
			var cc spec.C02Case
			jsonUnmarshal(c.P, &cc)
			side := c02Side(r, p2, pick(r, []string{"versioned", "legacy", "both"}))
			cc.Plugin2 = &side
			c.P = spec.MustJSON(cc)
		}
	}
	// the host's ProtocolVersion names a version that has its own VersionedPlugins entry, while the legacy
	// Plugins field holds the set of another version: the versioned entry is in force
	overlap := func(n int) {
		for i := 0; i < n; i++ {
			hm := 1 + r.Intn(31)
			for len(subsetOf(hm)) < 2 {
				hm = 1 + r.Intn(31)
			}
			h := subsetOf(hm)
			vi := r.Intn(len(h))
			wi := (vi + 1 + r.Intn(len(h)-1)) % len(h)
			v, w := h[vi], h[wi]
			pset := []int{v}
			switch i % 3 {
			case 1:
				pset = append([]int(nil), h...)
			case 2:
				pset = subsetOf((1 + r.Intn(31)) | 1<<uint(v))
			}
			add("overlap", h, pset, "versioned", pick(r, []string{"versioned", "legacy", "both"}), "")
			c := &out[len(out)-1]
			var cc spec.C02Case
			jsonUnmarshal(c.P, &cc)
			cc.Host.Overlap, cc.Host.OverlapSetOf = &v, &w
			c.P = spec.MustJSON(cc)
		}
	}
	// the host's handshake carries a ProtocolVersion V for which it registered nothing (Plugins nil, no entry in
	// VersionedPlugins): V is not offered, a plugin that announces V (it serves V and nothing the host offers) is refused
	handshakeOnly := func(n int) {
		for i := 0; i < n; i++ {
			v := 1 + r.Intn(4)
			hm := (1 + r.Intn(31)) &^ (1 << uint(v))
			if hm == 0 {
				hm = 1 << uint((v+1)%5)
			}
			h := subsetOf(hm)
			pset := []int{v}
			if i%2 == 1 {
				// plus versions below v that the host does not offer either
				for _, w := range subsetOf(((1 << uint(v)) - 1) &^ hm) {
					pset = append(pset, w)
				}
			}
			add("handshake-only", h, pset, "versioned", pick(r, []string{"versioned", "legacy"}), "")
			c := &out[len(out)-1]
			var cc spec.C02Case
			jsonUnmarshal(c.P, &cc)
			cc.Host.HandshakeOnly = &v
			c.P = spec.MustJSON(cc)
		}
	}
	layouts := []string{"versioned", "legacy", "both"}
	envFor := func(h []int) string {
		var ss []string
		for _, v := range h {
			ss = append(ss, strconv.Itoa(v))
		}
		switch r.Intn(6) {
		case 0:
			return "<unset>"
		case 1:
			return strings.Join(ss, ",") + ","
		case 2:
			return "x," + strings.Join(ss, ",x,")
		case 3:
			return strings.Join(ss, ", ") // spaces make entries invalid
		default:
			return strings.Join(ss, ",")
		}
	}
	if tier == "thorough" {
		// exhaustive over all pairs of non-empty subsets of {0..4}, two layouts each
		for hm := 1; hm < 32; hm++ {
			for pm := 1; pm < 32; pm++ {
				h, p := subsetOf(hm), subsetOf(pm)
				add("pair", h, p, "versioned", "versioned", envFor(h))
				add("pair", h, p, pick(r, layouts[1:]), pick(r, layouts[1:]), "")
			}
		}
		relaunch(600)
		overlap(300)
		handshakeOnly(200)
		for hm := 1; hm < 32; hm++ {
			for pm := 1; pm < 32; pm++ {
				add("wide-pair", subsetOf(hm), subsetOf(pm), pick(r, layouts), pick(r, layouts), "")
				add("neg-pair", subsetOf(hm), subsetOf(pm), "versioned", "versioned", "")
			}
		}
		return out
	}
	// quick: diagonals, then seeded pairs biased to |H ∩ P| >= 2
	for m := 1; m < 32; m++ {
		s := subsetOf(m)
		add("diagonal", s, s, pick(r, layouts), pick(r, layouts), envFor(s))
	}
	for i := 0; i < 170; i++ {
		hm, pm := 1+r.Intn(31), 1+r.Intn(31)
		if i%3 != 0 {
			for tries := 0; tries < 20 && len(subsetOf(hm&pm)) < 2; tries++ {
				hm, pm = 1+r.Intn(31), 1+r.Intn(31)
			}
		} else if i%2 == 0 {
			pm &^= hm // disjoint
			if pm == 0 {
				pm = (^hm) & 31
				if pm == 0 {
					hm, pm = 3, 4
				}
			}
		}
		env := ""
		if i%2 == 0 {
			env = envFor(subsetOf(hm))
		}
		add("pair", subsetOf(hm), subsetOf(pm), pick(r, layouts), pick(r, layouts), env)
	}
	relaunch(50)
	overlap(18)
	handshakeOnly(12)
	for i := 0; i < 40; i++ {
		hm, pm := 1+r.Intn(31), 1+r.Intn(31)
		for tries := 0; tries < 20 && len(subsetOf(hm&pm)) < 2 && i%4 != 3; tries++ {
			hm, pm = 1+r.Intn(31), 1+r.Intn(31)
		}
		add("wide-pair", subsetOf(hm), subsetOf(pm), pick(r, layouts), pick(r, layouts), "")
	}
	// version numbers below zero (VersionedPlugins is keyed by int; the legacy field cannot express them)
	for i := 0; i < 30; i++ {
		hm, pm := 1+r.Intn(31), 1+r.Intn(31)
		for tries := 0; tries < 20 && len(subsetOf(hm&pm)) < 2 && i%4 != 3; tries++ {
			hm, pm = 1+r.Intn(31), 1+r.Intn(31)
		}
		add("neg-pair", subsetOf(hm), subsetOf(pm), "versioned", "versioned", "")
	}
	return out
}

func intersectMax(a, b []int) (int, bool) {
	best, ok := -1, false
	for _, x := range a {
		for _, y := range b {
			if x == y && (!ok || x > best) {
				best, ok = x, true
			}
		}
	}
	return best, ok
}

func c02Judge(c spec.Case, evs []spec.Event, d *Death) CaseResult {
	var p spec.C02Case
	jsonUnmarshal(c.P, &p)
	if d != nil {
		return deathResult(d, "C02")
	}
	var o spec.C02Obs
	if !decodeD(findEv(evs, "ret", "Start"), &o) {
		return CaseResult{Verdict: "inconclusive", Inconcl: "no observation"}
	}
	H, P := p.Host.Set(), p.Plugin.Set()
	sort.Ints(H)
	sort.Ints(P)
	best, common := intersectMax(H, P)
	res := CaseResult{Verdict: "held", Counters: map[string]int{}}
	lay := func(s spec.C02Side) string {
		switch {
		case s.Legacy != nil && len(s.Versioned) > 0:
			return "both"
		case s.Legacy != nil:
			return "legacy"
		}
		return "versioned"
	}
	nI := 0
	for _, x := range H {
		for _, y := range P {
			if x == y {
				nI++
			}
		}
	}
	res.Class = fmt.Sprintf("|H|=%d |P|=%d |I|=%d host=%s plugin=%s raw=%v zero=%v", len(H), len(P), nI, lay(p.Host), lay(p.Plugin), p.EnvRaw != "", contains0(H) || contains0(P))
	if c.Kind == "neg-pair" {
		res.Class += " negative(-3,-2,-1,0,2)"
		res.Counters["pairs_with_negative_versions"]++
	}
	if c.Kind == "wide-pair" {
		res.Class += " wide(2,9,10,11,100)"
		res.Counters["pairs_with_mixed_digit_counts"]++
	}
	res.Sample = map[string]any{"host": H, "plugin": P, "host_layout": lay(p.Host), "plugin_layout": lay(p.Plugin), "negotiated": o.Negotiated, "start_err": trunc(o.StartErr, 80), "plugin_tag": o.PluginTag, "host_tag": o.HostTag, "raw_env": p.EnvRaw, "raw_line": trunc(o.RawLine, 60)}
	viol := func(key, msg string) {
		res.Verdict = "violated"
		res.Violations = append(res.Violations, Violation{Key: "C02:" + key, Msg: fmt.Sprintf("%s [host=%v (%s) plugin=%v (%s) proto=%v] obs=%+v", msg, H, lay(p.Host), P, lay(p.Plugin), p.Proto, o)})
	}
	if common {
		res.Counters["intersecting"]++
		wantProto := p.Proto[strconv.Itoa(best)]
		switch {
		case o.StartErr != "":
			viol("start-failed-with-common-version", fmt.Sprintf("sets intersect (highest common %d) but Start failed: %s", best, o.StartErr))
		default:
			if o.Negotiated != best {
				viol("not-highest-common", fmt.Sprintf("NegotiatedVersion()=%d, highest common version is %d", o.Negotiated, best))
			}
			if o.CallErr != "" {
				viol("call-failed", "a dispensed plugin does not work after negotiation: "+o.CallErr)
			} else {
				if want := fmt.Sprintf("plugin-set v%d %s", best, wantProto); o.PluginTag != want {
					viol("plugin-set-mismatch", fmt.Sprintf("the plugin serves %q, want %q", o.PluginTag, want))
				}
				if want := fmt.Sprintf("host-set v%d %s", best, wantProto); o.HostTag != want {
					viol("host-set-mismatch", fmt.Sprintf("the host uses %q, want %q", o.HostTag, want))
				}
			}
			if o.Protocol != wantProto {
				viol("wire-protocol-mismatch", fmt.Sprintf("Protocol()=%q, the set registered under version %d is %s", o.Protocol, best, wantProto))
			}
		}
	} else {
		res.Counters["disjoint"]++
		if o.StartErr == "" {
			viol("started-without-common-version", fmt.Sprintf("sets do not intersect but Start succeeded (negotiated %d)", o.Negotiated))
		} else {
			if !strings.Contains(o.StartErr, "Incompatible API version") {
				viol("wrong-error", "sets do not intersect; want the incompatible-version error, got: "+o.StartErr)
			}
			if o.StateSoon != "gone" && o.StateSoon != "Z" {
				viol("plugin-not-terminated", fmt.Sprintf("after the incompatible-version failure the plugin process is in state %s", o.StateSoon))
			}
		}
	}
	if p.Host.HandshakeOnly != nil {
		res.Class += " handshake-version-not-offered"
		res.Counters["handshake_only_cases"]++
	}
	if p.Host.Overlap != nil {
		res.Class += fmt.Sprintf(" overlap(best=legacy:%v)", best == *p.Host.Overlap)
		res.Counters["overlap_cases"]++
	}
	// a second launch through the same ClientConfig object: same rules, against the host's ORIGINAL sets
	if p.Plugin2 != nil {
		res.Class += " relaunch"
		res.Counters["relaunches"]++
		if o.Second == nil {
			return CaseResult{Verdict: "inconclusive", Inconcl: "second launch not observed", Class: res.Class}
		}
		o2 := *o.Second
		P2 := p.Plugin2.Set()
		sort.Ints(P2)
		best2, common2 := intersectMax(H, P2)
		viol2 := func(key, msg string) {
			res.Verdict = "violated"
			res.Violations = append(res.Violations, Violation{Key: "C02:relaunch:" + key, Msg: fmt.Sprintf("second launch through the same ClientConfig (first launch: plugin %v, negotiated %d, err %q): %s [host=%v (%s) plugin2=%v proto=%v] obs=%+v", P, o.Negotiated, trunc(o.StartErr, 60), msg, H, lay(p.Host), P2, p.Proto, o2)})
		}
		res.Sample.(map[string]any)["relaunch_plugin"], res.Sample.(map[string]any)["relaunch_negotiated"], res.Sample.(map[string]any)["relaunch_host_tag"] = P2, o2.Negotiated, o2.HostTag
		if common2 {
			wantProto := p.Proto[strconv.Itoa(best2)]
			switch {
			case o2.StartErr != "":
				viol2("start-failed-with-common-version", fmt.Sprintf("sets intersect (highest common %d) but Start failed: %s", best2, o2.StartErr))
			default:
				if o2.Negotiated != best2 {
					viol2("not-highest-common", fmt.Sprintf("NegotiatedVersion()=%d, highest common version is %d", o2.Negotiated, best2))
				}
				if o2.CallErr != "" {
					viol2("call-failed", "a dispensed plugin does not work after negotiation: "+o2.CallErr)
				} else {
					if want := fmt.Sprintf("plugin-set v%d %s", best2, wantProto); o2.PluginTag != want {
						viol2("plugin-set-mismatch", fmt.Sprintf("the plugin serves %q, want %q", o2.PluginTag, want))
					}
					if want := fmt.Sprintf("host-set v%d %s", best2, wantProto); o2.HostTag != want {
						viol2("host-set-mismatch", fmt.Sprintf("the host uses %q, want %q", o2.HostTag, want))
					}
				}
				if o2.Protocol != wantProto {
					viol2("wire-protocol-mismatch", fmt.Sprintf("Protocol()=%q, the set registered under version %d is %s", o2.Protocol, best2, wantProto))
				}
			}
		} else if o2.StartErr == "" {
			viol2("started-without-common-version", fmt.Sprintf("sets do not intersect but Start succeeded (negotiated %d)", o2.Negotiated))
		} else if !strings.Contains(o2.StartErr, "Incompatible API version") {
			viol2("wrong-error", "sets do not intersect; want the incompatible-version error, got: "+o2.StartErr)
		}
	}
	// raw line for an explicit list
	if p.EnvRaw != "" {
		res.Counters["raw_runs"]++
		if o.RawErr != "" {
			return CaseResult{Verdict: "inconclusive", Inconcl: "raw run: " + o.RawErr, Class: res.Class}
		}
		parts := strings.Split(o.RawLine, "|")
		if len(parts) < 5 {
			viol("raw-line-malformed", fmt.Sprintf("direct run printed %q", o.RawLine))
			return res
		}
		got, _ := strconv.Atoi(parts[1])
		var list []int
		if p.EnvRaw != "<unset>" {
			for _, s := range strings.Split(p.EnvRaw, ",") {
				if v, err := strconv.Atoi(s); err == nil {
					list = append(list, v)
				}
			}
		}
		want := P[0] // lowest plugin version when nothing matches / no list
		if b, ok := intersectMax(list, P); ok {
			want = b
		}
		if got != want {
			k := "announce-not-highest-common"
			if len(list) == 0 {
				k = "announce-not-lowest-without-list"
			}
			viol(k, fmt.Sprintf("with PLUGIN_PROTOCOL_VERSIONS=%q the plugin (versions %v) announced %d, want %d", p.EnvRaw, P, got, want))
		}
		if wp := p.Proto[strconv.Itoa(want)]; parts[4] != wp && got == want {
			viol("announce-protocol", fmt.Sprintf("announced protocol %q for version %d, whose set is %s", parts[4], want, wp))
		}
	}
	return res
}

func contains0(s []int) bool {
	for _, v := range s {
		if v == 0 {
			return true
		}
	}
	return false
}

func init() {
	register(&Prop{
		ID: "C02", Level: "exploration", Race: true, TestName: "TestC02",
		Gen: c02Gen, Batch: 26, Children: 8, PerCase: 3 * time.Second, Base: 120 * time.Second,
		Judge: c02Judge,
		Finish: func(r *Run) {
			if r.Tier == "thorough" {
				r.Extra["exhaustive"] = true
				r.Extra["exhaustive_over"] = "all 31x31 pairs of non-empty subsets of {0..4}, two layouts each"
			}
			if len(r.Cases) > 30 && (r.Counters["intersecting"] == 0 || r.Counters["disjoint"] == 0 || r.Counters["raw_runs"] == 0) {
				r.Inconcl = append(r.Inconcl, fmt.Sprintf("too little observed: %v", r.Counters))
			}
		},
		Rule:        "cases = (host version set, plugin version set) over versions {0..4} (and, for the wide pairs, over {2,9,10,11,100}: numbers whose decimal strings order differently from their values), each side laid out through VersionedPlugins, the legacy ProtocolVersion+Plugins pair, or both; per-version wire protocol all net/rpc, all gRPC or mixed; real subprocess per pair. Each set's implementations carry a version tag that the dispensed plugin and the host wrapper report. Half the cases also run the plugin directly with a chosen PLUGIN_PROTOCOL_VERSIONS (normal, unset, trailing comma, invalid entries) to read the raw announced line. Quick: all 31 diagonals + 170 seeded pairs biased to |H ∩ P| >= 2 and to disjoint sets; thorough: exhaustive over all 31x31 subset pairs x 2 layouts. Class = (|H|, |P|, |H∩P|, layouts, raw run, version 0 involved)",
		Assumptions: []string{"sets registered under one version use the same wire protocol on both sides (otherwise nothing could work)", "GRPCServer is configured whenever any plugin-side set is gRPC"},
	})
}
