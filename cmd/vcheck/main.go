// vcheck is the driver: it rebuilds the host workload binary and the scripted
// plugin from /repo's working tree (build tag verif, race detector on),
// generates the seeded case list of one property, runs it in watched child
// processes, applies the property's oracle to the recorded events, and writes
// the evidence file. It never links go-plugin: reference models are written
// from the property statements.
package main

import (
	"encoding/json"
	"flag"
	"fmt"
	"math/rand"
	"os"
	"os/exec"
	"path/filepath"
	"sort"
	"strconv"
	"strings"
	"sync"
	"syscall"
	"time"

	"verif/spec"
)

// root is the framework directory: the working directory run.sh started us in
// (/verif, or a snapshot of it under vp run).
var root = func() string {
	if d, err := os.Getwd(); err == nil {
		return d
	}
	return "/verif"
}()

type Violation struct {
	Key string `json:"key"` // normalised witness; matched against known_findings.json
	Msg string `json:"msg"`
}

type CaseResult struct {
	Verdict    string // "held" | "violated" | "inconclusive"
	Class      string // behaviour class actually observed
	Trivial    bool   // class does not count as non-trivial
	Violations []Violation
	Inconcl    string
	Sample     any
	Counters   map[string]int
	Slow       string
}

type Death struct {
	ExitErr string
	Stderr  string // tail
}

type Prop struct {
	ID          string
	Level       string
	Race        bool
	TestName    string // go test function in package host
	Gen         func(rng *rand.Rand, tier string) []spec.Case
	Batch       int           // cases per child (0 = all in one)
	Children    int           // concurrent children
	Solo        bool          // one case per child
	PerCase     time.Duration // watchdog budget per case (child timeout = base + n*PerCase/parallelism)
	Base        time.Duration
	Env         func(c []spec.Case) []string
	Judge       func(c spec.Case, evs []spec.Event, d *Death) CaseResult
	Finish      func(r *Run) // cross-case oracle and minimum-observation assertions
	Rule        string
	Assumptions []string
}

type Run struct {
	P           *Prop
	Tier        string
	Seed        int64
	Cases       []spec.Case
	Events      map[int][]spec.Event
	Deaths      map[int]*Death
	Results     map[int]*CaseResult
	Extra       map[string]any
	Counters    map[string]int
	Inconcl     []string // run-level: too little observed, hook never hit, ...
	CaseInconcl []string // single cases the harness could not carry out
	Viol        []struct {
		Case int
		V    Violation
	}
	RunDir      string
	RaceLogs    []string
	Batch       []spec.Event // events a child emitted for the batch as a whole (case -1)
	BatchDeaths []batchDeath // children that died with several cases in flight
	mu          sync.Mutex
}

var props = map[string]*Prop{}

func register(p *Prop) { props[p.ID] = p }

func env() []string {
	e := os.Environ()
	out := e[:0:0]
	for _, kv := range e {
		if strings.HasPrefix(kv, "GOFLAGS=") || strings.HasPrefix(kv, "GOPROXY=") || strings.HasPrefix(kv, "GOSUMDB=") || strings.HasPrefix(kv, "GOTOOLCHAIN=") {
			continue
		}
		out = append(out, kv)
	}
	return append(out, "GOFLAGS=-mod=mod", "GOPROXY=off")
}

func build(race bool) (vhost, vplugin string, err error) {
	bdir := filepath.Join(root, ".build")
	os.MkdirAll(bdir, 0o755)
	suffix := ""
	args := []string{"-tags", "verif"}
	if race {
		suffix = "-race"
		args = append(args, "-race")
	}
	vhost = filepath.Join(bdir, "vhost"+suffix)
	vplugin = filepath.Join(bdir, "vplugin"+suffix)
	run := func(a ...string) error {
		cmd := exec.Command("go", a...)
		cmd.Dir = root
		cmd.Env = env()
		out, err := cmd.CombinedOutput()
		if err != nil {
			return fmt.Errorf("go %s: %v\n%s", strings.Join(a, " "), err, out)
		}
		return nil
	}
	var wg sync.WaitGroup
	var e1, e2 error
	wg.Add(2)
	go func() {
		defer wg.Done()
		e1 = run(append(append([]string{"test", "-c", "-vet=off"}, args...), "-o", vhost, "./host")...)
	}()
	go func() {
		defer wg.Done()
		e2 = run(append(append([]string{"build"}, args...), "-o", vplugin, "./vplugin")...)
	}()
	wg.Wait()
	if e1 != nil {
		return "", "", e1
	}
	return vhost, vplugin, e2
}

func main() {
	pid := flag.String("p", "", "property id")
	tier := flag.String("tier", "", "quick|thorough")
	replay := flag.String("replay", "", "replay file")
	only := flag.Int("case", -1, "run only this case id of the generated list")
	keep := flag.Bool("keep", false, "keep run directory")
	flag.Parse()
	if *tier == "" {
		*tier = os.Getenv("VERIF_TIER")
	}
	if *tier == "" {
		*tier = "quick"
	}
	seed := int64(1)
	if s := os.Getenv("VERIF_SEED"); s != "" {
		if v, err := strconv.ParseInt(s, 10, 64); err == nil {
			seed = v
		}
	}
	var replayCase *spec.Case
	if *replay != "" {
		b, err := os.ReadFile(*replay)
		if err != nil {
			fatal(err)
		}
		var rf struct {
			Property string
			Seed     int64
			Tier     string
			Case     spec.Case
		}
		if err := json.Unmarshal(b, &rf); err != nil {
			fatal(err)
		}
		*pid, seed, *tier = rf.Property, rf.Seed, rf.Tier
		replayCase = &rf.Case
	}
	p, ok := props[*pid]
	if !ok {
		var ids []string
		for k := range props {
			ids = append(ids, k)
		}
		sort.Strings(ids)
		fatal(fmt.Errorf("unknown property %q (have %v)", *pid, ids))
	}
	t0 := time.Now()
	vhost, vplugin, err := build(p.Race)
	if err != nil {
		fmt.Println("INCONCLUSIVE: build failed:", err)
		os.Exit(2)
	}

	r := &Run{P: p, Tier: *tier, Seed: seed, Events: map[int][]spec.Event{}, Deaths: map[int]*Death{}, Results: map[int]*CaseResult{}, Extra: map[string]any{}, Counters: map[string]int{}}
	r.RunDir = filepath.Join(root, ".run", p.ID)
	os.RemoveAll(r.RunDir)
	os.MkdirAll(r.RunDir, 0o755)
	if replayCase != nil {
		r.Cases = []spec.Case{*replayCase}
	} else {
		r.Cases = p.Gen(rand.New(rand.NewSource(seed)), *tier)
		for i := range r.Cases {
			r.Cases[i].ID = i
		}
		if *only >= 0 {
			r.Cases = []spec.Case{r.Cases[*only]}
		}
	}
	r.execute(vhost, vplugin)
	r.judge()
	code := r.report(time.Since(t0), replayCase != nil)
	if !*keep && code == 0 {
		os.RemoveAll(r.RunDir)
	}
	os.Exit(code)
}

func fatal(err error) {
	fmt.Fprintln(os.Stderr, "vcheck:", err)
	os.Exit(2)
}

// ------------------------------------------------------------ execution

type batchDeath struct {
	Open  []int
	Death *Death
}

type batch struct {
	n     int
	cases []spec.Case
}

func (r *Run) execute(vhost, vplugin string) {
	p := r.P
	var batches []batch
	bs := p.Batch
	if p.Solo {
		bs = 1
	}
	if bs <= 0 {
		bs = len(r.Cases)
	}
	// cases whose kind starts with "solo:" mutate process globals and get a child of their own
	var normal []spec.Case
	for _, c := range r.Cases {
		if strings.HasPrefix(c.Kind, "solo:") {
			batches = append(batches, batch{n: len(batches), cases: []spec.Case{c}})
		} else {
			normal = append(normal, c)
		}
	}
	for i := 0; i < len(normal); i += bs {
		j := i + bs
		if j > len(normal) {
			j = len(normal)
		}
		batches = append(batches, batch{n: len(batches), cases: normal[i:j]})
	}
	children := p.Children
	if children <= 0 {
		children = 1
	}
	sem := make(chan struct{}, children)
	var wg sync.WaitGroup
	for _, b := range batches {
		wg.Add(1)
		sem <- struct{}{}
		go func(b batch) {
			defer wg.Done()
			defer func() { <-sem }()
			r.runBatch(vhost, vplugin, fmt.Sprintf("b%d", b.n), b.cases, true)
		}(b)
	}
	wg.Wait()
}

// runBatch runs one host child over cases. If the child dies (or is stopped by
// the watchdog) the cases it had begun but not ended are re-run one per child
// so that the death is attributed to the case that causes it.
func (r *Run) runBatch(vhost, vplugin, name string, cases []spec.Case, retry bool) {
	p := r.P
	dir := filepath.Join(r.RunDir, name)
	os.MkdirAll(dir, 0o755)
	tmp := filepath.Join(dir, "t")
	os.MkdirAll(tmp, 0o755)
	cf := filepath.Join(dir, "cases.json")
	b, _ := json.Marshal(cases)
	os.WriteFile(cf, b, 0o644)
	ef := filepath.Join(dir, "events.jsonl")
	errf, _ := os.Create(filepath.Join(dir, "stderr.txt"))
	defer errf.Close()

	timeout := p.Base + time.Duration(len(cases))*p.PerCase
	if timeout < 60*time.Second {
		timeout = 60 * time.Second
	}
	cmd := exec.Command(vhost, "-test.run", "^"+p.TestName+"$", "-test.timeout", "0", "-test.v")
	cmd.Dir = dir
	cmd.Stdout = errf
	cmd.Stderr = errf
	// a distinctive stdin (not /dev/null), so "the plugin gets the host's stdin" is observable
	os.WriteFile(filepath.Join(dir, "stdin.txt"), []byte("host stdin\n"), 0o644)
	if sf, err := os.Open(filepath.Join(dir, "stdin.txt")); err == nil {
		cmd.Stdin = sf
		defer sf.Close()
	}
	cmd.SysProcAttr = &syscall.SysProcAttr{Setpgid: true}
	cmd.Env = append(os.Environ(),
		"VERIF_CASES="+cf, "VERIF_EVENTS="+ef, "VERIF_PLUGIN="+vplugin, "VERIF_DIR="+dir,
		"TMPDIR="+tmp, fmt.Sprintf("VERIF_SEED=%d", r.Seed), "VERIF_TIER="+r.Tier,
		"GORACE=halt_on_error=0 log_path="+filepath.Join(dir, "race"))
	if p.Env != nil {
		cmd.Env = append(cmd.Env, p.Env(cases)...)
	}
	var death *Death
	if err := cmd.Start(); err != nil {
		death = &Death{ExitErr: "start: " + err.Error()}
	} else {
		done := make(chan error, 1)
		go func() { done <- cmd.Wait() }()
		select {
		case err := <-done:
			if err != nil {
				death = &Death{ExitErr: err.Error()}
			}
		case <-healthyAfter(2 * timeout): // (twice the budget: the children's own deadlines stretch on a starved machine)
			// ask for a goroutine dump, then kill the whole group
			syscall.Kill(cmd.Process.Pid, syscall.SIGQUIT)
			select {
			case <-done:
			case <-time.After(10 * time.Second):
			}
			death = &Death{ExitErr: fmt.Sprintf("watchdog: child exceeded %v", 2*timeout)}
		}
		syscall.Kill(-cmd.Process.Pid, syscall.SIGKILL)
	}
	errf.Sync()
	evs, _ := spec.ReadEvents(ef)
	byCase := map[int][]spec.Event{}
	ended := map[int]bool{}
	begun := map[int]bool{}
	for _, e := range evs {
		byCase[e.Case] = append(byCase[e.Case], e)
		if e.Ev == "case-begin" {
			begun[e.Case] = true
		}
		if e.Ev == "case-end" {
			ended[e.Case] = true
		}
	}
	if death != nil {
		death.Stderr = tailFile(filepath.Join(dir, "stderr.txt"), 6000)
	}
	// race logs
	if m, _ := filepath.Glob(filepath.Join(dir, "race.*")); len(m) > 0 {
		r.mu.Lock()
		r.RaceLogs = append(r.RaceLogs, m...)
		r.mu.Unlock()
	}
	if m, _ := filepath.Glob(filepath.Join(dir, "*", "race.*")); len(m) > 0 {
		r.mu.Lock()
		r.RaceLogs = append(r.RaceLogs, m...)
		r.mu.Unlock()
	}
	var rerun []spec.Case
	r.mu.Lock()
	r.Batch = append(r.Batch, byCase[-1]...)
	for _, c := range cases {
		switch {
		case ended[c.ID]:
			r.Events[c.ID] = byCase[c.ID]
		case death != nil && len(cases) == 1:
			r.Events[c.ID] = byCase[c.ID]
			r.Deaths[c.ID] = death
		case death != nil:
			rerun = append(rerun, c) // begun-but-open and never-begun alike
		default:
			// child exited 0 without running the case
			r.Events[c.ID] = byCase[c.ID]
			r.Deaths[c.ID] = &Death{ExitErr: "child ended without running the case", Stderr: tailFile(filepath.Join(dir, "stderr.txt"), 2000)}
		}
	}
	r.mu.Unlock()
	if death != nil && len(cases) > 1 {
		var open []int
		for _, c := range cases {
			if begun[c.ID] && !ended[c.ID] {
				open = append(open, c.ID)
			}
		}
		r.mu.Lock()
		r.BatchDeaths = append(r.BatchDeaths, batchDeath{Open: open, Death: death})
		r.mu.Unlock()
	}
	if len(rerun) > 0 && retry {
		// open cases alone (attribution); untouched cases together
		var open, untouched []spec.Case
		for _, c := range rerun {
			if begun[c.ID] {
				open = append(open, c)
			} else {
				untouched = append(untouched, c)
			}
		}
		for _, c := range open {
			r.runBatch(vhost, vplugin, fmt.Sprintf("%s-solo%d", name, c.ID), []spec.Case{c}, false)
		}
		if len(untouched) > 0 {
			r.runBatch(vhost, vplugin, name+"-rest", untouched, true)
		}
	}
}

func tailFile(path string, n int) string {
	b, err := os.ReadFile(path)
	if err != nil {
		return ""
	}
	if len(b) > n {
		// keep the head of a panic if there is one
		if i := strings.Index(string(b), "panic:"); i >= 0 && len(b)-i > n {
			return string(b[i : i+n])
		}
		if i := strings.Index(string(b), "fatal error:"); i >= 0 && len(b)-i > n {
			return string(b[i : i+n])
		}
		b = b[len(b)-n:]
	}
	return string(b)
}

// ------------------------------------------------------------ judging

func (r *Run) judge() {
	for _, c := range r.Cases {
		res := r.P.Judge(c, r.Events[c.ID], r.Deaths[c.ID])
		r.Results[c.ID] = &res
		for k, v := range res.Counters {
			r.Counters[k] += v
		}
		for _, v := range res.Violations {
			r.Viol = append(r.Viol, struct {
				Case int
				V    Violation
			}{c.ID, v})
		}
		if res.Verdict == "inconclusive" {
			r.CaseInconcl = append(r.CaseInconcl, fmt.Sprintf("case %d: %s", c.ID, res.Inconcl))
		}
	}
	// a child that died with several cases in flight whose death did not
	// reproduce when those cases were re-run alone is still a host death
	for _, bd := range r.BatchDeaths {
		if strings.HasPrefix(bd.Death.ExitErr, "start:") {
			continue
		}
		reproduced := false
		for _, id := range bd.Open {
			if r.Deaths[id] != nil {
				reproduced = true
			}
		}
		if !reproduced {
			key := r.P.ID + ":host-died-unattributed"
			if strings.HasPrefix(bd.Death.ExitErr, "watchdog") {
				key = r.P.ID + ":host-hung-unattributed"
			}
			sig := ""
			for _, l := range strings.Split(bd.Death.Stderr, "\n") {
				if strings.HasPrefix(l, "panic:") || strings.HasPrefix(l, "fatal error:") {
					sig = l
					break
				}
			}
			r.AddViolation(-1, key, fmt.Sprintf("a host child died (%s) with cases %v in flight; not reproduced when they were re-run alone. %s\n%s", bd.Death.ExitErr, bd.Open, sig, trunc(bd.Death.Stderr, 3000)))
		}
	}
	if r.P.Finish != nil {
		r.P.Finish(r)
	}
}

func (r *Run) AddViolation(caseID int, key, msg string) {
	r.Viol = append(r.Viol, struct {
		Case int
		V    Violation
	}{caseID, Violation{key, msg}})
}

type finding struct {
	Property string `json:"property"`
	Status   string `json:"status"` // known | fixed
	Key      string `json:"key"`
	Commit   string `json:"commit,omitempty"`
	What     string `json:"what"`
}

func loadFindings() []finding {
	var f struct {
		Findings []finding `json:"findings"`
	}
	b, err := os.ReadFile(filepath.Join(root, "known_findings.json"))
	if err == nil {
		json.Unmarshal(b, &f)
	}
	return f.Findings
}

func (r *Run) report(wall time.Duration, isReplay bool) int {
	p := r.P
	known := map[string]finding{}
	for _, f := range loadFindings() {
		if f.Property == p.ID && f.Status == "known" {
			known[f.Key] = f
		}
	}
	caseByID := map[int]spec.Case{}
	for _, c := range r.Cases {
		caseByID[c.ID] = c
	}
	os.MkdirAll(filepath.Join(root, "replay"), 0o755)
	nviol := 0
	knownSeen := map[string]int{}
	printed := 0
	perKey := map[string]int{}
	for i, v := range r.Viol {
		if f, ok := known[v.V.Key]; ok {
			if knownSeen[v.V.Key] == 0 {
				fmt.Printf("KNOWN-FINDING: property=%s %s\n", p.ID, f.What)
			}
			knownSeen[v.V.Key]++
			continue
		}
		nviol++
		path := filepath.Join(root, "replay", fmt.Sprintf("%s-%d-%d.json", p.ID, r.Seed, i))
		rf := map[string]any{
			"property": p.ID, "seed": r.Seed, "tier": r.Tier, "case": caseByID[v.Case],
			"violation": v.V, "events": r.Events[v.Case],
		}
		if d := r.Deaths[v.Case]; d != nil {
			rf["death"] = d
		}
		b, _ := json.MarshalIndent(rf, "", " ")
		os.WriteFile(path, b, 0o644)
		perKey[v.V.Key]++
		if perKey[v.V.Key] <= 2 && printed < 30 {
			fmt.Printf("VIOLATION property=%s replay=%s\n", p.ID, path)
			fmt.Printf("  case %d key=%s: %s\n", v.Case, v.V.Key, trunc(v.V.Msg, 600))
			printed++
		}
	}
	if nviol > printed {
		fmt.Printf("  ... and %d more violations (replay files written); per key: %v\n", nviol-printed, perKey)
	}

	// coverage
	classes := map[string]int{}
	trivial := map[string]bool{}
	var samples []any
	verdicts := map[string]int{}
	var slow []string
	for _, c := range r.Cases {
		res := r.Results[c.ID]
		if res == nil {
			continue
		}
		verdicts[res.Verdict]++
		if res.Class != "" {
			classes[res.Class]++
			if res.Trivial {
				trivial[res.Class] = true
			}
		}
		if res.Sample != nil && len(samples) < 6 && (classes[res.Class] == 1) {
			samples = append(samples, res.Sample)
		}
		if res.Slow != "" && len(slow) < 20 {
			slow = append(slow, fmt.Sprintf("case %d: %s", c.ID, res.Slow))
		}
	}
	distinct := 0
	for k := range classes {
		if !trivial[k] {
			distinct++
		}
	}
	if len(samples) == 0 {
		for _, c := range r.Cases {
			if res := r.Results[c.ID]; res != nil && res.Sample != nil {
				samples = append(samples, res.Sample)
				if len(samples) >= 3 {
					break
				}
			}
		}
	}
	classList := make([]string, 0, len(classes))
	for k := range classes {
		classList = append(classList, k)
	}
	sort.Strings(classList)
	if len(classList) > 60 {
		classList = classList[:60]
	}
	cov := map[string]any{
		"evaluations":         len(r.Cases),
		"distinct_nontrivial": distinct,
		"rule":                p.Rule,
		"samples":             samples,
		"verdicts":            verdicts,
		"behaviour_classes":   classList,
		"counters":            r.Counters,
		"known_findings_seen": knownSeen,
		"slow_cases":          slow,
		"race_log_files":      len(r.RaceLogs),
		"inconclusive_cases":  len(r.CaseInconcl),
	}
	for k, v := range r.Extra {
		cov[k] = v
	}
	ev := map[string]any{
		"property_id": p.ID, "tier": r.Tier, "seed": r.Seed, "level": p.Level,
		"coverage": cov, "assumptions": p.Assumptions,
		"wall_s": float64(int(wall.Seconds()*10)) / 10, "violations": nviol,
	}
	if !isReplay {
		os.MkdirAll(filepath.Join(root, "evidence"), 0o755)
		b, _ := json.MarshalIndent(ev, "", " ")
		os.WriteFile(filepath.Join(root, "evidence", p.ID+".json"), b, 0o644)
	}
	fmt.Printf("%s tier=%s seed=%d cases=%d classes=%d verdicts=%v violations=%d known=%d inconclusive=%d wall=%.1fs\n",
		p.ID, r.Tier, r.Seed, len(r.Cases), distinct, verdicts, nviol, len(knownSeen), len(r.Inconcl)+len(r.CaseInconcl), wall.Seconds())
	if nviol > 0 {
		return 1
	}
	// A few cases the harness could not carry out (a plugin that did not come up
	// on a loaded machine, ...) are reported but do not make the run inconclusive;
	// many of them do.
	if limit := max(3, len(r.Cases)/20); len(r.CaseInconcl) > limit {
		r.Inconcl = append(r.Inconcl, fmt.Sprintf("%d of %d cases were inconclusive (limit %d), e.g. %s", len(r.CaseInconcl), len(r.Cases), limit, r.CaseInconcl[0]))
	} else {
		for i, s := range r.CaseInconcl {
			if i < 5 {
				fmt.Println("note: inconclusive case (tolerated):", trunc(s, 300))
			}
		}
	}
	if len(r.Inconcl) > 0 {
		for i, s := range r.Inconcl {
			if i >= 10 {
				break
			}
			fmt.Println("INCONCLUSIVE:", trunc(s, 800))
		}
		return 2
	}
	return 0
}

func trunc(s string, n int) string {
	if len(s) > n {
		return s[:n] + "…"
	}
	return s
}

// helpers for Judge functions

func findEv(evs []spec.Event, ev, op string) *spec.Event {
	for i := range evs {
		if evs[i].Ev == ev && (op == "" || evs[i].Op == op) {
			return &evs[i]
		}
	}
	return nil
}

func decodeD(e *spec.Event, v any) bool {
	if e == nil || e.D == nil {
		return false
	}
	return json.Unmarshal(e.D, v) == nil
}

// deathResult is the common verdict for a case whose host child died.
func deathResult(d *Death, keyPrefix string) CaseResult {
	msg := d.ExitErr + "\n" + d.Stderr
	key := keyPrefix + ":host-died"
	if strings.HasPrefix(d.ExitErr, "watchdog") {
		key = keyPrefix + ":host-hung"
	}
	if strings.HasPrefix(d.ExitErr, "start:") || strings.HasPrefix(d.ExitErr, "child ended without") {
		return CaseResult{Verdict: "inconclusive", Inconcl: msg}
	}
	return CaseResult{Verdict: "violated", Class: key, Violations: []Violation{{Key: key, Msg: msg}}}
}

func jsonUnmarshal(b []byte, v any) error { return json.Unmarshal(b, v) }

// healthyAfter is time.After counted in time during which this machine let us run: it proceeds in ticks of one
// second, and a tick that took more than three seconds (overload, a stopped process group) does not count. The
// channel fires after d of such time, or after 6*d whatever the ticks say. A watchdog must not mistake a
// starved machine for a hung child.
func healthyAfter(d time.Duration) <-chan struct{} {
	ch := make(chan struct{})
	go func() {
		t0 := time.Now()
		last := t0
		var healthy time.Duration
		for {
			time.Sleep(time.Second)
			now := time.Now()
			if dt := now.Sub(last); dt <= 3*time.Second {
				healthy += dt
			}
			last = now
			if healthy >= d || now.Sub(t0) >= 6*d {
				close(ch)
				return
			}
		}
	}()
	return ch
}
