package main

import (
	"fmt"
	"math/rand"
	"sort"
	"strings"
	"time"

	"verif/spec"
)

func c20Gen(r *rand.Rand, tier string) []spec.Case {
	var out []spec.Case
	rounds := 36
	if tier == "thorough" {
		rounds = 2000
	}
	kinds := []string{"mux", "grpc", "grpcmux", "client-netrpc", "client-grpc", "client-grpcmux"}
	for i := 0; i < rounds; i++ {
		c := spec.C20Case{Kind: kinds[i%len(kinds)], G: []int{4, 16, 64}[(i/len(kinds))%3], Ops: 6, ShutdownRace: r.Intn(3) == 0, Seed: r.Int63n(1 << 30)}
		if c.Kind == "grpc" && i%2 == 1 {
			c.ShutdownRace = true // every other gRPC-broker round races shutdown with listener announcements
		}
		if c.G == 64 {
			c.Ops = 3
		}
		if strings.HasPrefix(c.Kind, "client-") && (i/len(kinds))%2 == 1 {
			c.AutoMTLS = true
		}
		if (c.Kind == "client-grpc" || c.Kind == "client-netrpc") && (i/len(kinds))%2 == 0 {
			c.SecondHost = true
		}
		out = append(out, spec.Case{Kind: c.Kind, P: spec.MustJSON(c)})
	}
	// process-wide state: managed clients created while CleanupClients runs (a host child of their own)
	for _, g := range []int{4, 16} {
		c := spec.C20Case{Kind: "managed", G: g, Ops: 6, Seed: r.Int63n(1 << 30)}
		out = append(out, spec.Case{Kind: "solo:managed", P: spec.MustJSON(c)})
	}
	return out
}

func c20Judge(c spec.Case, evs []spec.Event, d *Death) CaseResult {
	var p spec.C20Case
	jsonUnmarshal(c.P, &p)
	res := CaseResult{Verdict: "held", Counters: map[string]int{}}
	res.Class = fmt.Sprintf("%s g=%d shutdownRace=%v", p.Kind, p.G, p.ShutdownRace)
	if p.AutoMTLS {
		res.Class += " autoMTLS+startup-stderr"
	}
	if p.SecondHost {
		res.Class += " second-host-reattached+stdio"
	}
	viol := func(key, msg string) {
		res.Verdict = "violated"
		res.Violations = append(res.Violations, Violation{Key: "C20:" + key, Msg: fmt.Sprintf("%s [kind=%s goroutines=%d shutdownRace=%v seed=%d]", msg, p.Kind, p.G, p.ShutdownRace, p.Seed)})
	}
	if d != nil {
		if strings.HasPrefix(d.ExitErr, "start:") || strings.HasPrefix(d.ExitErr, "child ended without") {
			return CaseResult{Verdict: "inconclusive", Inconcl: d.ExitErr}
		}
		sig := "host-died"
		for _, l := range strings.Split(d.Stderr, "\n") {
			if strings.HasPrefix(l, "panic:") || strings.HasPrefix(l, "fatal error:") {
				sig = "host-died:" + trunc(l, 60)
				break
			}
		}
		if strings.HasPrefix(d.ExitErr, "watchdog") {
			// a hang is not among the things this property excludes (races, double closes, panics, duplicate
			// ids): not decided here
			return CaseResult{Verdict: "inconclusive", Inconcl: "the host child hung during a concurrent round (liveness is not part of C20): " + d.ExitErr + "\n" + trunc(d.Stderr, 1500)}
		}
		viol(sig, "the host process died during a concurrent round: "+d.ExitErr+"\n"+trunc(d.Stderr, 3000))
		return res
	}
	var o spec.C20Obs
	if !decodeD(findEv(evs, "ret", "round"), &o) {
		return CaseResult{Verdict: "inconclusive", Inconcl: "no observation"}
	}
	if o.SetupErr != "" {
		return CaseResult{Verdict: "inconclusive", Inconcl: "setup: " + o.SetupErr}
	}
	var ops []string
	for k, v := range o.Ops {
		res.Counters["op:"+k] += v
		ops = append(ops, fmt.Sprintf("%s=%d(err %d)", k, v, o.OpErrs[k]))
	}
	sort.Strings(ops)
	res.Sample = map[string]any{"round": p, "ops": ops, "host_ids_sample": o.HostIDs, "plugin_ids_sample": o.PluginIDs}
	if !o.Returned && len(o.Panics) == 0 && len(o.DupHost) == 0 && len(o.DupPlugin) == 0 {
		// the statement excludes data races, double closes, panics and duplicate ids; a round that does not
		// finish is none of these (C03/C04/C09/C18 decide liveness): the case is not decided here
		return CaseResult{Verdict: "inconclusive", Inconcl: fmt.Sprintf("the round did not finish within 120 s (liveness is not part of C20) [kind=%s goroutines=%d shutdownRace=%v seed=%d]\n%s", p.Kind, p.G, p.ShutdownRace, p.Seed, trunc(o.Dump, 2500)), Class: res.Class}
	}
	for _, pn := range o.Panics {
		viol("panic:"+trunc(pn, 50), "a call panicked: "+pn)
	}
	if len(o.DupHost) > 0 || len(o.DupPlugin) > 0 {
		viol("nextid-duplicate", fmt.Sprintf("NextId returned the same id twice: host %v plugin %v", o.DupHost, o.DupPlugin))
	}
	if o.PluginStderr != "" {
		viol("plugin-side:"+trunc(strings.SplitN(o.PluginStderr, "\n", 2)[0], 60), "the plugin process reported: "+o.PluginStderr)
	}
	if !p.ShutdownRace {
		// without a shutdown race nothing may fail
		for k, v := range o.OpErrs {
			if v > 0 && k != "Start" {
				res.Counters["unexpected_op_errors"] += v
			}
		}
	}
	return res
}

func c20Finish(r *Run) {
	hooks := map[string]int{}
	for _, c := range r.Cases {
		var o spec.C20Obs
		if decodeD(findEv(r.Events[c.ID], "ret", "round"), &o) {
			for k, v := range o.Hooks {
				if v > hooks[k] {
					hooks[k] = v
				}
			}
		}
	}
	r.Extra["hook_hits"] = hooks
	r.raceSummary("C20")
	if len(r.Cases) > 10 {
		for _, need := range []string{"op:pair", "op:nextid", "op:Dispense+call", "op:Start"} {
			if r.Counters[need] == 0 {
				r.Inconcl = append(r.Inconcl, "no operations of type "+need+" executed")
			}
		}
		if r.Counters["unexpected_op_errors"] > 0 {
			r.Extra["note_unexpected_op_errors"] = "operations failed in rounds without a shutdown race; they are counted, not judged (C06-C08 judge routing)"
		}
	}
}

func init() {
	register(&Prop{
		ID: "C20", Level: "exploration", Race: true, TestName: "TestC20",
		Gen: c20Gen, Batch: 3, Children: 5, PerCase: 30 * time.Second, Base: 180 * time.Second,
		Judge: c20Judge, Finish: c20Finish,
		Rule:        "a case = one concurrent round with n in {4,16,64} goroutines, race detector on host and plugin: (a) on an in-process MuxBroker / GRPCBroker / multiplexed pair: accept/dial pairs on distinct ids reserved with NextId (sequential under multiplexing), concurrent Dispense/calls/Ping, NextId hammering from both sides; (b) on one real Client: Start, Client, Exited, ID, ReattachConfig, NegotiatedVersion (only after a Start returned), Protocol, Dispense of three plugin names + calls + brokered connections served by the plugin; every other round with AutoMTLS against a plugin that logs to stderr from process start, the others with a second host reattached to the plugin and write commands that make it print to stdout/stderr; in a third of the rounds Close / server Stop / two concurrent Kill calls race with the in-flight operations. (c) process-wide state: goroutines creating managed clients while CleanupClients runs. Seeded 0-2 ms jitter at every hook point. Oracles: race-detector logs of both processes attributed to go-plugin by accessing frame, host death, recovered panics, panic/fatal lines on the plugin's stderr, duplicates in the multiset of NextId results. Class = kind, goroutines, shutdown race",
		Assumptions: []string{"operation failures are not judged here (expected under shutdown races; routing is C06-C08's)", "a clean race-detector run covers only the accesses and schedules this workload produced", "a round or host child that does not finish is inconclusive here, not a violation: the statement excludes races, double closes, panics and duplicate ids, not hangs (C03, C04, C09, C18 decide liveness)"},
	})
}
