package main

import (
	"fmt"
	"math/rand"
	"time"

	"verif/spec"
)

func c11Gen(r *rand.Rand, tier string) []spec.Case {
	var out []spec.Case
	sizes := []int{0, 1, 1015, 1023, 1024, 1025, 2039, 2048, 2049, 4087, 4096, 4097, 8192, 65536}
	n := 45
	if tier == "thorough" {
		n = 4000
	}
	for i := 0; i < n; i++ {
		proto := []string{"netrpc", "grpc", "grpcmux"}[i%3]
		seed := int64(r.Intn(1 << 20))
		c := spec.C11Case{Proto: proto, Traffic: r.Intn(2) == 0, ViaRPC: r.Intn(2) == 0}
		c.Main.Seed, c.Pre.Seed = seed, seed
		nf := 1 + r.Intn(40)
		for j := 0; j < nf; j++ {
			f := spec.C11Frame{Stream: pick(r, []string{"o", "o", "e"})}
			switch r.Intn(4) {
			case 0:
				f.Len = pick(r, sizes)
			case 1:
				f.Len = r.Intn(64)
			case 2:
				f.Len = r.Intn(6000)
			default:
				f.Len = pick(r, sizes[:11])
			}
			if r.Intn(3) == 0 {
				f.GapUs = r.Intn(2000)
			}
			c.Main.Frames = append(c.Main.Frames, f)
		}
		if i%15 == 7 {
			c.Main.Frames = append(c.Main.Frames, spec.C11Frame{Stream: "o", Len: 1 << 20}, spec.C11Frame{Stream: "e", Len: 300000})
		}
		if i%3 != 2 {
			// data written before the host has attached
			np := 1 + r.Intn(6)
			for j := 0; j < np; j++ {
				c.Pre.Frames = append(c.Pre.Frames, spec.C11Frame{Stream: pick(r, []string{"o", "e"}), Len: pick(r, sizes[:12])})
			}
			if i%9 == 4 {
				// more than pipe + buffers can hold: the writer must be back-pressured, not lose data
				c.Pre.Frames = append(c.Pre.Frames, spec.C11Frame{Stream: "o", Len: 200000}, spec.C11Frame{Stream: "e", Len: 100000})
			}
			c.ClientDelayMs = r.Intn(500)
		}
		out = append(out, spec.Case{Kind: proto, P: spec.MustJSON(c)})
	}
	// one single write on one stream and then silence: whatever the copier's chunking, a lone write of
	// a size around (a multiple of) its buffer sizes must come out without anything following it
	// (a frame carries a 9-byte header: the sizes below are those of the write the plugin issues)
	lone := []int{10, 1023, 1024, 1025, 2048, 3072, 4096, 4097, 8192, 32768}
	for i, proto := range []string{"netrpc", "grpc", "grpcmux"} {
		for _, st := range []string{"o", "e"} {
			for _, sz := range lone {
				if proto == "grpcmux" && tier != "thorough" && sz != 1024 && sz != 4096 {
					continue
				}
				sz -= 9
				seed := int64(r.Intn(1 << 20))
				c := spec.C11Case{Proto: proto, ViaRPC: (i+sz)%2 == 0}
				c.Main.Seed, c.Pre.Seed = seed, seed
				if sz%2 == 0 && r.Intn(2) == 0 {
					// preceded by a short write well before it
					c.Main.Frames = append(c.Main.Frames, spec.C11Frame{Stream: st, Len: 1 + r.Intn(50)})
					c.Main.Frames = append(c.Main.Frames, spec.C11Frame{Stream: st, Len: sz, GapUs: 50000})
				} else {
					c.Main.Frames = append(c.Main.Frames, spec.C11Frame{Stream: st, Len: sz})
				}
				out = append(out, spec.Case{Kind: proto + "-lone", P: spec.MustJSON(c)})
			}
		}
	}
	// many short writes on both streams, some before the host attaches, while every
	// Send in the plugin is delayed a little: several chunks of both streams are
	// waiting whenever the stdio server comes back for more
	ns := 12
	if tier == "thorough" {
		ns = 300
	}
	for i := 0; i < ns; i++ {
		proto := []string{"grpc", "grpcmux", "netrpc"}[i%3]
		seed := int64(r.Intn(1 << 20))
		c := spec.C11Case{Proto: proto, ViaRPC: i%2 == 0, PluginHook: pick(r, []string{"grpcstdio.beforeSend:sleep:1", "grpcstdio.beforeSend:sleep:3", "grpcstdio.chunkRead:sleep:1"})}
		c.Main.Seed, c.Pre.Seed = seed, seed
		for j := 0; j < 1+r.Intn(3); j++ {
			c.Pre.Frames = append(c.Pre.Frames, spec.C11Frame{Stream: []string{"o", "e"}[j%2], Len: r.Intn(120)})
		}
		c.ClientDelayMs = r.Intn(200)
		nf := 10 + r.Intn(40)
		for j := 0; j < nf; j++ {
			c.Main.Frames = append(c.Main.Frames, spec.C11Frame{Stream: pick(r, []string{"o", "e"}), Len: r.Intn(200), GapUs: pick(r, []int{0, 0, 50, 300, 1500})})
		}
		out = append(out, spec.Case{Kind: proto + "-small", P: spec.MustJSON(c)})
	}
	// (gRPC kinds) one stream's sync writer refuses or half-accepts every third write: what it refuses is
	// lost to that writer and must never reach the other stream's writer; the other stream stays exact
	nfl := 12
	if tier == "thorough" {
		nfl = 240
	}
	for i := 0; i < nfl; i++ {
		proto := []string{"grpc", "grpcmux"}[i%2]
		seed := int64(r.Intn(1 << 20))
		c := spec.C11Case{Proto: proto, ViaRPC: i%4 < 2, FlakyWriter: []string{"err:e", "short:e", "err:o", "short:o"}[(i/2)%4]}
		c.Main.Seed, c.Pre.Seed = seed, seed
		nf := 12 + r.Intn(30)
		for j := 0; j < nf; j++ {
			c.Main.Frames = append(c.Main.Frames, spec.C11Frame{Stream: []string{"o", "e"}[j%2], Len: pick(r, []int{r.Intn(200), r.Intn(200), 1015, 3000}), GapUs: pick(r, []int{0, 300, 3000})})
		}
		out = append(out, spec.Case{Kind: proto + "-flaky-writer", P: spec.MustJSON(c)})
	}
	return out
}

func c11Judge(c spec.Case, evs []spec.Event, d *Death) CaseResult {
	var p spec.C11Case
	jsonUnmarshal(c.P, &p)
	if d != nil {
		return deathResult(d, "C11")
	}
	var o spec.C11Obs
	if !decodeD(findEv(evs, "ret", "stdio"), &o) {
		return CaseResult{Verdict: "inconclusive", Inconcl: "no observation"}
	}
	if o.SetupErr != "" {
		return CaseResult{Verdict: "inconclusive", Inconcl: "setup: " + o.SetupErr}
	}
	res := CaseResult{Verdict: "held", Counters: map[string]int{}}
	maxLen := 0
	for _, f := range append(append([]spec.C11Frame(nil), p.Pre.Frames...), p.Main.Frames...) {
		if f.Len > maxLen {
			maxLen = f.Len
		}
	}
	res.Class = fmt.Sprintf("%s pre=%v traffic=%v rpc=%v frames=%s max=%s", p.Proto, len(p.Pre.Frames) > 0, p.Traffic, p.ViaRPC, sizeBucket(len(p.Main.Frames)), sizeClass(maxLen, 0))
	if p.FlakyWriter != "" {
		res.Class += " flakyWriter=" + p.FlakyWriter
	}
	res.Sample = map[string]any{"proto": p.Proto, "pre_frames": len(p.Pre.Frames), "main_frames": len(p.Main.Frames), "client_delay_ms": p.ClientDelayMs, "stdout": o.Out, "stderr": o.Err, "snapshots": o.Snapshots, "wait_ms": o.WaitMs}
	res.Counters["bytes_stdout"] += int(o.Out.Received)
	res.Counters["bytes_stderr"] += int(o.Err.Received)
	res.Counters["snapshots"] += o.Snapshots
	viol := func(key, msg string) {
		res.Verdict = "violated"
		res.Violations = append(res.Violations, Violation{Key: "C11:" + key, Msg: fmt.Sprintf("%s [proto=%s pre=%d main=%d frames, clientDelay=%dms traffic=%v]", msg, p.Proto, len(p.Pre.Frames), len(p.Main.Frames), p.ClientDelayMs, p.Traffic)})
	}
	if o.WriteErr != "" {
		return CaseResult{Verdict: "inconclusive", Inconcl: "write command failed: " + o.WriteErr, Class: res.Class}
	}
	for _, st := range []struct {
		name string
		s    spec.C11Stream
	}{{"stdout", o.Out}, {"stderr", o.Err}} {
		if st.s.Flaky {
			// the stream whose writer refuses some writes: only "nothing foreign, nothing out of order"
			res.Counters["writes_refused_by_sync_writer"] += st.s.Refusals
			if st.s.NotSubseq {
				viol("foreign-bytes:"+st.name, fmt.Sprintf("%s (its sync writer refuses every third write): what the writer accepted cannot be obtained from what the plugin wrote by leaving bytes out", st.name))
			}
			if st.s.Refusals == 0 {
				return CaseResult{Verdict: "inconclusive", Inconcl: "the flaky writer never refused a write", Class: res.Class}
			}
			continue
		}
		if !st.s.IsPrefix {
			k := "corrupt"
			switch {
			case st.s.CrossTag:
				k = "crossed-streams"
			case st.s.FirstDiff >= st.s.Expected:
				k = "duplicated-or-extra"
			}
			viol(k+":"+st.name, fmt.Sprintf("%s: what the host received is not a prefix of what the plugin wrote (first difference at byte %d of %d; received %d) %s", st.name, st.s.FirstDiff, st.s.Expected, st.s.Received, st.s.Context))
			continue
		}
		if st.s.Received < st.s.Expected {
			if !o.Alive {
				return CaseResult{Verdict: "inconclusive", Inconcl: "connection not alive at the end", Class: res.Class}
			}
			viol("lost:"+st.name, fmt.Sprintf("%s: %d of %d bytes arrived %d ms after the plugin acknowledged its last write (connection alive)", st.name, st.s.Received, st.s.Expected, o.WaitMs))
		}
	}
	return res
}

func init() {
	register(&Prop{
		ID: "C11", Level: "exploration", Race: true, TestName: "TestC11",
		Gen: c11Gen, Batch: 9, Children: 5, PerCase: 6 * time.Second, Base: 120 * time.Second,
		Judge: c11Judge,
		Finish: func(r *Run) {
			r.raceSummary("C11")
			if len(r.Cases) > 10 && (r.Counters["bytes_stdout"] == 0 || r.Counters["bytes_stderr"] == 0) {
				r.Inconcl = append(r.Inconcl, "nothing received")
			}
		},
		Rule:        "a case = a write plan for a real serving plugin (net/rpc, gRPC, gRPC+mux): 1-40 frames over the two streams from two goroutines, sizes around the 1 KiB chunk / 4 KiB buffer boundaries (0,1,1023..1025,2047..2049,4095..4097,8192,64 KiB, occasionally 1 MiB) and random, optional inter-write gaps, optionally concurrent RPC traffic, issued over the side channel or over the plugin RPC; two thirds of the cases also write frames the moment serving starts, before the host calls Client() (host delay 0-500 ms), some with more than pipe+buffer capacity. Frames are self-describing ([stream tag][seq][len][PRNG payload]); the host regenerates the expected stream, checks every 20 ms that what arrived is a prefix of it and, after the plugin acknowledged its last write, that everything arrives within 15 s. For gRPC kinds a further group of cases gives one stream a sync writer that refuses, or takes only half of, every third Write: the other stream must stay byte-exact and what the flaky writer accepted must be obtainable from its own stream by leaving bytes out. Class = (protocol, pre-attach data, traffic, command path, #frames bucket, max frame size class)",
		Assumptions: []string{"loss is judged as bounded progress: 15 s after the acknowledged last write with the connection still answering Ping", "each frame is issued as one Write call on os.Stdout/os.Stderr of the plugin"},
	})
}
