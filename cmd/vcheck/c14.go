package main

import (
	"fmt"
	"math/rand"
	"strings"
	"time"

	"verif/spec"
)

// c14Expect is the classification table written from the statement and the option docs.
func c14Expect(p *spec.C14Case) (class, detail string) {
	if p.Conflict != "" {
		return "MUST_FAIL_AT_START", "option:" + p.Conflict
	}
	if p.RawLine != "" && !p.Mux {
		// a plugin that prints a short line (old builds, other languages): no protocol field means net/rpc,
		// which the host's allowed list does not contain
		return "MUST_FAIL_AT_START", "protocol"
	}
	if p.RawLine != "" {
		// a plugin that prints a handshake line without (a true) multiplexing field while the host requests it
		return "MUST_FAIL_AT_START", "mux"
	}
	if len(p.VerHost) > 0 && p.Proto == "" {
		return "MUST_FAIL_AT_START", "version"
	}
	allowed := p.Allowed
	if allowed == nil {
		allowed = []string{"netrpc"}
	}
	protoOK := contains(allowed, p.Proto)
	tls := func() string {
		switch p.ServerTLS + "/" + p.ClientTLS {
		case "none/none", "none/auto", "static/static", "ignorecert/none", "none/auto+static":
			return "MUST_WORK" // (auto+static on a launch: AutoMTLS takes the place of the static config)
		case "static/auto+static":
			return "EITHER_BUT_CLEAN"
		case "ignorecert/auto":
			// the host asked for mutual TLS and the plugin serves plain text: working would be a silent downgrade
			return "MUST_NOT_WORK"
		case "static/auto":
			return "EITHER_BUT_CLEAN" // AutoMTLS with a TLSProvider on the server is documented as not to be combined
		}
		return "MUST_NOT_WORK"
	}
	if p.Launch == "reattach" {
		switch {
		case p.Mux:
			return "MUST_FAIL_AT_START", "option:mux+reattach"
		case p.ClientTLS == "auto+static":
			if !protoOK {
				return "MUST_NOT_WORK", "protocol-not-allowed"
			}
			if p.ServerTLS == "none" {
				return "MUST_NOT_WORK", "tls" // the host configured TLS: plain text would be a silent downgrade
			}
			return "EITHER_BUT_CLEAN", "AutoMTLS+reattach is documented as unsupported"
		case p.ClientTLS == "auto":
			return "EITHER_BUT_CLEAN", "AutoMTLS+reattach is documented as unsupported"
		case !protoOK:
			return "MUST_NOT_WORK", "protocol-not-allowed"
		}
		return tls(), "tls"
	}
	if !protoOK {
		return "MUST_FAIL_AT_START", "protocol"
	}
	if p.Mux && p.Proto == "grpc" && p.OldPlugin {
		return "MUST_FAIL_AT_START", "mux"
	}
	return tls(), "tls"
}

func c14Gen(r *rand.Rand, tier string) []spec.Case {
	var all []spec.C14Case
	for _, proto := range []string{"netrpc", "grpc"} {
		for _, st := range []string{"none", "static"} {
			for _, ct := range []string{"none", "static", "wrongca", "auto"} {
				for _, mux := range []bool{false, true} {
					for _, old := range []bool{false, true} {
						for _, la := range []string{"cmd", "runner", "reattach"} {
							for _, al := range [][]string{nil, {"grpc"}, {"netrpc", "grpc"}} {
								all = append(all, spec.C14Case{Proto: proto, ServerTLS: st, ClientTLS: ct, Mux: mux, OldPlugin: old, Launch: la, Allowed: al})
							}
						}
					}
				}
			}
		}
	}
	var out []spec.Case
	add := func(c spec.C14Case) {
		cl, det := c14Expect(&c)
		out = append(out, spec.Case{Kind: cl + ":" + det, P: spec.MustJSON(c)})
	}
	// hosts that set AutoMTLS and a static TLSConfig together
	for _, proto := range []string{"netrpc", "grpc"} {
		for _, st := range []string{"none", "static"} {
			for _, la := range []string{"reattach", "cmd"} {
				add(spec.C14Case{Proto: proto, ServerTLS: st, ClientTLS: "auto+static", Launch: la, Allowed: []string{"netrpc", "grpc"}})
			}
		}
	}
	// a plugin that ignores PLUGIN_CLIENT_CERT, against hosts with and without AutoMTLS
	for _, proto := range []string{"netrpc", "grpc"} {
		for _, ct := range []string{"auto", "none"} {
			for _, la := range []string{"cmd", "runner"} {
				add(spec.C14Case{Proto: proto, ServerTLS: "ignorecert", ClientTLS: ct, Launch: la, Allowed: []string{"netrpc", "grpc"}})
			}
		}
	}
	// several versions on both sides, each with its own wire protocol: what is compatible is decided by the
	// highest common version's protocol against the allowed list
	nver := 24
	if tier == "thorough" {
		nver = 400
	}
	for i := 0; i < nver; i++ {
		hm, pm := 1+r.Intn(63), 1+r.Intn(63)
		hi := func(m int) int { // highest set bit, -1 if none
			b := -1
			for k := 0; k < 6; k++ {
				if m&(1<<uint(k)) != 0 {
					b = k
				}
			}
			return b
		}
		switch {
		case i%8 == 7:
			// as drawn (often disjoint)
		case i%2 == 0:
			// staggered: each side also has a version of its own above the highest common one
			for tries := 0; tries < 300 && !(hm&pm != 0 && hi(hm&^pm) > hi(hm&pm) && hi(pm&^hm) > hi(hm&pm)); tries++ {
				hm, pm = 1+r.Intn(63), 1+r.Intn(63)
			}
		default:
			for tries := 0; tries < 30 && hm&pm == 0; tries++ {
				hm, pm = 1+r.Intn(63), 1+r.Intn(63)
			}
		}
		sub := func(m int) (out []int) {
			for v := 1; v <= 6; v++ {
				if m&(1<<uint(v-1)) != 0 {
					out = append(out, v)
				}
			}
			return
		}
		c := spec.C14Case{ServerTLS: "none", ClientTLS: pick(r, []string{"none", "auto"}), Launch: pick(r, []string{"cmd", "runner"}), VerHost: sub(hm), VerPlugin: sub(pm), VerProto: map[string]string{}}
		for v := 1; v <= 6; v++ {
			c.VerProto[fmt.Sprint(v)] = pick(r, []string{"netrpc", "grpc"})
		}
		if b, ok := intersectMax(c.VerHost, c.VerPlugin); ok {
			c.VerBest, c.Proto = b, c.VerProto[fmt.Sprint(b)]
		}
		c.Allowed = [][]string{{"grpc"}, {"netrpc", "grpc"}, {"netrpc", "grpc"}, nil}[r.Intn(4)]
		c.Mux = c.Proto == "grpc" && r.Intn(3) == 0
		add(c)
	}
	for _, cf := range []string{"cmd+reattach", "secure+reattach", "none-set"} {
		add(spec.C14Case{Proto: "netrpc", ServerTLS: "none", ClientTLS: "none", Launch: "cmd", Conflict: cf})
	}
	// non-Go / old plugins that print shorter lines, multiplexing requested
	for _, ln := range []string{"1|1|tcp|127.0.0.1:1|grpc", "1|1|tcp|127.0.0.1:1|grpc|", "1|1|tcp|127.0.0.1:1|grpc||false", "1|1|tcp|127.0.0.1:1|grpc||0", "1|1|unix|/nonexistent|grpc"} {
		for _, la := range []string{"cmd", "runner"} {
			add(spec.C14Case{Proto: "grpc", ServerTLS: "none", ClientTLS: "none", Mux: true, Launch: la, Allowed: []string{"netrpc", "grpc"}, RawLine: ln})
		}
	}
	// short lines without a protocol field (= net/rpc) against hosts that do not allow net/rpc
	for _, ln := range []string{"1|1|tcp|127.0.0.1:1", "1|1|unix|/nonexistent"} {
		for _, al := range [][]string{{"grpc"}, {"bogus"}} {
			for _, la := range []string{"cmd", "runner"} {
				add(spec.C14Case{Proto: "netrpc", ServerTLS: "none", ClientTLS: "none", Launch: la, Allowed: al, RawLine: ln})
			}
		}
	}
	if tier == "thorough" {
		for _, c := range all {
			add(c)
		}
		return out
	}
	// quick: a seeded sample that contains every expectation kind several times
	byKind := map[string][]spec.C14Case{}
	var kinds []string
	for _, c := range all {
		cl, det := c14Expect(&c)
		k := cl + ":" + det
		if _, ok := byKind[k]; !ok {
			kinds = append(kinds, k)
		}
		byKind[k] = append(byKind[k], c)
	}
	for _, k := range kinds {
		cs := byKind[k]
		r.Shuffle(len(cs), func(i, j int) { cs[i], cs[j] = cs[j], cs[i] })
		n := 10
		if strings.HasPrefix(k, "MUST_WORK") {
			n = 40
		}
		if strings.HasPrefix(k, "MUST_NOT_WORK:tls") {
			n = 24
		}
		for i := 0; i < n && i < len(cs); i++ {
			add(cs[i])
		}
	}
	return out
}

func c14Judge(c spec.Case, evs []spec.Event, d *Death) CaseResult {
	var p spec.C14Case
	jsonUnmarshal(c.P, &p)
	class, detail := c14Expect(&p)
	res := CaseResult{Verdict: "held", Counters: map[string]int{}}
	res.Class = fmt.Sprintf("%s:%s | %s s=%s c=%s mux=%v old=%v %s allowed=%v raw=%q", class, detail, p.Proto, p.ServerTLS, p.ClientTLS, p.Mux, p.OldPlugin, p.Launch, p.Allowed, p.RawLine)
	if len(p.VerHost) > 0 {
		res.Class += fmt.Sprintf(" versions(|H|=%d |P|=%d)", len(p.VerHost), len(p.VerPlugin))
	}
	cell := fmt.Sprintf("proto=%s serverTLS=%s clientTLS=%s mux=%v oldPlugin=%v launch=%s allowed=%v conflict=%s rawLine=%q", p.Proto, p.ServerTLS, p.ClientTLS, p.Mux, p.OldPlugin, p.Launch, p.Allowed, p.Conflict, p.RawLine)
	if len(p.VerHost) > 0 {
		cell += fmt.Sprintf(" hostVersions=%v pluginVersions=%v protocols=%v highestCommon=%d", p.VerHost, p.VerPlugin, p.VerProto, p.VerBest)
	}
	viol := func(key, msg string) {
		res.Verdict = "violated"
		res.Violations = append(res.Violations, Violation{Key: "C14:" + key, Msg: fmt.Sprintf("%s [expected %s:%s; cell %s]", msg, class, detail, cell)})
	}
	if d != nil {
		return deathResult(d, "C14")
	}
	var o spec.C14Obs
	if !decodeD(findEv(evs, "ret", "cell"), &o) {
		return CaseResult{Verdict: "inconclusive", Inconcl: "no observation"}
	}
	if o.SetupErr != "" {
		return CaseResult{Verdict: "inconclusive", Inconcl: "setup: " + o.SetupErr, Class: res.Class}
	}
	res.Sample = map[string]any{"cell": p, "expected": class + ":" + detail, "observed": o}
	res.Counters[class]++
	// never: hang, panic
	if o.Hung != "" || !o.StartReturned {
		viol("hang:"+class, fmt.Sprintf("operation %q hung", o.Hung))
	}
	if o.Panic != "" {
		viol("panic", "host panicked: "+o.Panic)
	}
	if o.StartErr != "" && (o.RetryOK || o.RetryProtocol != "") {
		viol("refused-start-accepted-on-retry", fmt.Sprintf("Start was refused (%s) but the same client then reports Start err=%q Protocol()=%q", trunc(o.StartErr, 80), o.RetryErr, o.RetryProtocol))
	}
	worked := o.StartErr == "" && o.ClientErr == "" && (o.PingErr == "" || (o.CallErr == "" && o.Tag != ""))
	fully := o.StartErr == "" && o.ClientErr == "" && o.PingErr == "" && o.CallErr == "" && o.H2PErr == "" && o.P2HErr == "" && o.BigErr == "" && o.BigBrokeredErr == ""
	switch class {
	case "MUST_FAIL_AT_START":
		if o.StartErr == "" {
			viol("start-accepted:"+detail, "Start succeeded although the configuration must be refused at start")
			break
		}
		switch detail {
		case "mux":
			if !o.IsMuxErr {
				viol("mux-wrong-error", "requesting multiplexing from a plugin that does not advertise it must fail with ErrGRPCBrokerMuxNotSupported, got: "+o.StartErr)
			}
		case "option:secure+reattach":
			if !o.IsSecureErr {
				viol("option-wrong-error", "SecureConfig+Reattach must fail with ErrSecureConfigAndReattach, got: "+o.StartErr)
			}
		}
		if (detail == "protocol" || detail == "mux") && o.StateAfterErr != "gone" && o.StateAfterErr != "Z" {
			viol("plugin-survives-refusal:"+detail, fmt.Sprintf("after the start-time refusal the plugin process is in state %q", o.StateAfterErr))
		}
		if strings.HasPrefix(detail, "option:") && p.Conflict != "" && o.Pid != 0 {
			viol("launched-despite-conflict", "a process was launched although the options conflict")
		}
	case "MUST_WORK":
		if !fully {
			viol("compatible-but-broken", fmt.Sprintf("a compatible configuration does not work end to end: start=%q client=%q ping=%q call=%q h2p=%q p2h=%q big=%q bigBrokered=%q", o.StartErr, o.ClientErr, o.PingErr, o.CallErr, o.H2PErr, o.P2HErr, o.BigErr, o.BigBrokeredErr))
			break
		}
		if o.Protocol != p.Proto {
			viol("wrong-protocol", fmt.Sprintf("Protocol()=%q", o.Protocol))
		}
		wantV := 1
		if len(p.VerHost) > 0 {
			wantV = p.VerBest
		}
		if want := fmt.Sprintf("plugin-set v%d %s", wantV, p.Proto); o.Tag != want {
			viol("wrong-identity", fmt.Sprintf("identity tag %q, want %q", o.Tag, want))
		}
		// a cell in which both sides are configured for transport security: the brokered connections are protected
		// too (on the wire protocol where they have a TLS layer of their own: gRPC)
		if p.Proto == "grpc" && (p.ServerTLS == "static" || p.ClientTLS == "auto") {
			for dir, a := range map[string]string{"host to plugin": o.H2PAuth, "plugin to host": o.P2HAuth} {
				if a == "none" {
					viol("brokered-connection-not-protected", fmt.Sprintf("the brokered callback %s works, but its connection is not protected by TLS although the cell configures transport security (silent downgrade)", dir))
				}
			}
			res.Counters["brokered_connections_checked_for_tls"]++
		}
		if o.Hung != "" {
			break // the operations after the hung one never ran: nothing was observed about them
		}
		if o.BigLen != 8<<20 {
			viol("large-response", fmt.Sprintf("8 MiB response arrived with %d bytes", o.BigLen))
		}
		if o.UnknownErr == "" {
			viol("unknown-dispense", fmt.Sprintf("Dispense of an unknown plugin name returned no error (nil client: %v)", o.UnknownNil))
		}
	case "MUST_NOT_WORK":
		if worked {
			k := "worked-over-mismatched-transport"
			if detail == "protocol-not-allowed" {
				k = "spoke-disallowed-protocol"
			}
			viol(k, fmt.Sprintf("RPCs succeeded although the configurations are incompatible (%s): ping=%q call=%q tag=%q protocol=%s", detail, o.PingErr, o.CallErr, o.Tag, o.Protocol))
		}
	}
	if !o.KillReturned && p.Conflict == "" {
		viol("kill-hung", "Kill did not return within 30 s")
	}
	// never speak a protocol outside the allowed list
	allowed := p.Allowed
	if allowed == nil {
		allowed = []string{"netrpc"}
	}
	if worked && !contains(allowed, o.Protocol) && class != "MUST_NOT_WORK" {
		viol("spoke-disallowed-protocol", fmt.Sprintf("the client speaks %q, allowed %v", o.Protocol, allowed))
	}
	return res
}

func init() {
	register(&Prop{
		ID: "C14", Level: "exploration", Race: true, TestName: "TestC14",
		Gen: c14Gen, Batch: 12, Children: 6, PerCase: 10 * time.Second, Base: 180 * time.Second,
		Judge: c14Judge,
		Finish: func(r *Run) {
			r.raceSummary("C14")
			if r.Tier == "thorough" {
				r.Extra["exhaustive"] = true
				r.Extra["exhaustive_over"] = "all 576 cells of protocol x server TLS x client TLS x mux x plugin generation x launch x allowed list, plus 3 option conflicts"
			}
			for _, k := range []string{"MUST_WORK", "MUST_NOT_WORK", "MUST_FAIL_AT_START", "EITHER_BUT_CLEAN"} {
				if len(r.Cases) > 30 && r.Counters[k] == 0 {
					r.Inconcl = append(r.Inconcl, "no cell of class "+k+" observed")
				}
			}
		},
		Rule:        "cells of the product protocol {net/rpc, gRPC} x server TLS {none, TLSProvider} x client TLS {none, static matching, static wrong CA, AutoMTLS} x multiplexing requested x plugin generation {current, emulated pre-mux plugin} x launch {Cmd, custom runner, reattach} x AllowedProtocols {default, [grpc], both} + option conflicts + cells where both sides register several versions (subsets of 1..6) with a wire protocol per version, so that compatibility is decided by the highest common version's protocol against the allowed list; each against a real plugin subprocess. A classification table written from the statement maps every cell to MUST_WORK / MUST_FAIL_AT_START(kind) / MUST_NOT_WORK / EITHER_BUT_CLEAN; 'works' = Ping, identity-tagged call, brokered callback in both directions (for gRPC cells with a protected configuration the authentication grpc.Peer reports on the brokered connection must not be none), 8 MiB response, error on an unknown plugin name. Quick: a seeded sample with every expectation kind (40 MUST_WORK cells); thorough: all 576 cells. Class = expectation + cell",
		Assumptions: []string{"AutoMTLS combined with a server TLSProvider, and AutoMTLS with reattach, are documented as unsupported: only 'no hang, no panic' is required there", "a pre-mux plugin is emulated by removing PLUGIN_MULTIPLEX_GRPC from the plugin's environment at its start", "static TLS = server certificate pinned as the client's RootCA, no client certificates"},
	})
}
