package main

import (
	"fmt"
	"math/rand"
	"strconv"
	"strings"
	"time"

	"verif/spec"
)

func c16Gen(r *rand.Rand, tier string) []spec.Case {
	var out []spec.Case
	cookies := []string{"unset", "empty", "prefix", "suffix", "case", "other", "padded", "correct"}
	muxes := []string{"unset", "empty", "true", "false", "junk"}
	add := func(c spec.C16Case) {
		out = append(out, spec.Case{Kind: c.Cookie + "/" + c.CfgCookie, P: spec.MustJSON(c)})
	}
	for _, ck := range cookies {
		for _, pr := range []string{"netrpc", "grpc"} {
			for _, tl := range []string{"none", "provider", "clientcert"} {
				for _, mx := range muxes {
					if tier != "thorough" && ck != "correct" && r.Intn(4) != 0 {
						continue // quick: a quarter of the wrong-cookie product, all of the serving product
					}
					c := spec.C16Case{Cookie: ck, CfgCookie: "normal", Proto: pr, TLS: tl, Sets: pick(r, []string{"legacy", "versioned"}), MuxEnv: mx}
					// wrong-cookie runs are always traced (a transient listener is only visible there);
					// serving runs are traced on a sample in quick, always in thorough
					c.Strace = ck != "correct" || tier == "thorough" || r.Intn(3) == 0
					add(c)
				}
			}
		}
	}
	// the host's version list in every shape: what the plugin makes of it is C02's business, but whatever
	// it is, the first thing on the real stdout is the handshake line and nothing else follows
	for _, vs := range []string{"unset", "empty", "5,6", "0", "3", "1,x", "x", "1, 2", " 2", "2,,1", "-1", "99999999999999999999", "1,2,"} {
		for _, st := range []string{"legacy", "versioned"} {
			add(spec.C16Case{Cookie: "correct", CfgCookie: "normal", Proto: pick(r, []string{"netrpc", "grpc"}), TLS: pick(r, []string{"none", "provider", "clientcert"}), Sets: st, MuxEnv: pick(r, muxes), Versions: vs, Strace: tier == "thorough" || r.Intn(2) == 0})
		}
	}
	// plugin code that prints to os.Stdout on its own after the handshake, with no host connected
	for _, pr := range []string{"netrpc", "grpc"} {
		for _, tl := range []string{"none", "clientcert"} {
			add(spec.C16Case{Cookie: "correct", CfgCookie: "normal", Proto: pr, TLS: tl, Sets: "legacy", MuxEnv: pick(r, muxes), Chatter: true})
		}
	}
	// socket directories whose names contain characters that are special somewhere
	for _, sd := range []string{"s%41b%sd", "with space", "q'uo\"te", "ünï", "%v%d%%", "a;b&c"} {
		for _, mx := range []string{"unset", "true", "false"} {
			add(spec.C16Case{Cookie: "correct", CfgCookie: "normal", Proto: pick(r, []string{"netrpc", "grpc"}), TLS: "none", Sets: "legacy", MuxEnv: mx, SockDir: sd, Strace: tier == "thorough" || r.Intn(3) == 0})
		}
	}
	// a process that served in test mode before: the cookie rules still hold for the real Serve afterwards
	for _, ck := range cookies {
		for _, pr := range []string{"netrpc", "grpc"} {
			add(spec.C16Case{Cookie: ck, CfgCookie: "normal", Proto: pr, TLS: "none", Sets: pick(r, []string{"legacy", "versioned"}), MuxEnv: "unset", PreTest: true, Strace: ck != "correct"})
		}
	}
	for _, cc := range []string{"emptyKey", "emptyValue"} {
		add(spec.C16Case{Cookie: "correct", CfgCookie: cc, Proto: "netrpc", TLS: "none", Sets: "legacy", MuxEnv: "unset", PreTest: true, Strace: true})
	}
	// long cookie values (a hex digest, and one longer than that): every variant but the exact value is refused
	for _, cc := range []string{"long64", "long74"} {
		for _, ck := range []string{"correct", "prefix", "prefix64", "suffix", "newline", "othertail", "case", "padded", "unset"} {
			add(spec.C16Case{Cookie: ck, CfgCookie: cc, Proto: pick(r, []string{"netrpc", "grpc"}), TLS: "none", Sets: "legacy", MuxEnv: "unset", Strace: ck != "correct"})
		}
	}
	// ... and that test-mode serve had SyncStdio set (stdout/stderr swapped and restored around it): it still
	// prints nothing, the first line on the real stdout is the real Serve's handshake line
	for _, pr := range []string{"netrpc", "grpc"} {
		for _, mx := range []string{"unset", "true"} {
			add(spec.C16Case{Cookie: "correct", CfgCookie: "normal", Proto: pr, TLS: "none", Sets: pick(r, []string{"legacy", "versioned"}), MuxEnv: mx, PreTest: true, PreTestSync: true, Strace: mx == "true"})
		}
	}
	for _, cc := range []string{"emptyKey", "emptyValue"} {
		for _, ck := range []string{"correct", "unset", "empty"} {
			add(spec.C16Case{Cookie: ck, CfgCookie: cc, Proto: pick(r, []string{"netrpc", "grpc"}), TLS: "none", Sets: "legacy", MuxEnv: "unset", Strace: true})
		}
	}
	return out
}

func c16Judge(c spec.Case, evs []spec.Event, d *Death) CaseResult {
	var p spec.C16Case
	jsonUnmarshal(c.P, &p)
	if d != nil {
		return deathResult(d, "C16")
	}
	var o spec.C16Obs
	if !decodeD(findEv(evs, "ret", "serve"), &o) {
		return CaseResult{Verdict: "inconclusive", Inconcl: "no observation"}
	}
	if o.SetupErr != "" {
		return CaseResult{Verdict: "inconclusive", Inconcl: o.SetupErr}
	}
	res := CaseResult{Verdict: "held", Counters: map[string]int{}}
	res.Class = fmt.Sprintf("cookie=%s cfg=%s %s tls=%s mux=%s traced=%v versions=%q pretest=%v/%v sockdir=%q chatter=%v", p.Cookie, p.CfgCookie, p.Proto, p.TLS, p.MuxEnv, p.Strace, p.Versions, p.PreTest, p.PreTestSync, p.SockDir, p.Chatter)
	res.Sample = map[string]any{"case": p, "exited": o.Exited, "exit_code": o.ExitCode, "stdout": trunc(string(o.Stdout), 120), "sockets": len(o.Sockets), "binds": o.Binds, "listen_before_line": o.ListenBefore, "writes_to_fd1": o.Stdout1Writes}
	viol := func(key, msg string) {
		res.Verdict = "violated"
		res.Violations = append(res.Violations, Violation{Key: "C16:" + key, Msg: fmt.Sprintf("%s [cookie=%s cfgCookie=%s proto=%s tls=%s sets=%s muxEnv=%s versions=%q] stdout=%q stderr=%q", msg, p.Cookie, p.CfgCookie, p.Proto, p.TLS, p.Sets, p.MuxEnv, p.Versions, trunc(string(o.Stdout), 150), trunc(o.StderrHead, 100))})
	}
	mustServe := p.Cookie == "correct" && (p.CfgCookie == "normal" || strings.HasPrefix(p.CfgCookie, "long"))
	if !mustServe {
		res.Counters["refusals"]++
		if !o.Exited {
			viol("served-without-cookie", "the plugin printed a line / kept running without the expected cookie")
			return res
		}
		if o.ExitCode != 1 {
			viol("exit-status", fmt.Sprintf("exit status %d, want 1", o.ExitCode))
		}
		if len(o.Stdout) != 0 {
			viol("stdout-not-empty", "something was printed on stdout")
		}
		if len(o.Sockets) != 0 {
			viol("socket-left", fmt.Sprintf("socket files in the sandbox: %v", o.Sockets))
		}
		allowedBinds := 0
		if p.PreTest {
			allowedBinds = 1 // the earlier test-mode serve legitimately opened (and closed) its own listener
		}
		if o.Traced && len(o.Binds) > allowedBinds {
			viol("listener-opened-without-cookie", fmt.Sprintf("the process bound a listener although the cookie was wrong: %v", o.Binds))
		}
		if o.Traced {
			res.Counters["refusals_traced"]++
		}
		return res
	}
	res.Counters["serving"]++
	if o.Exited {
		viol("exited-with-right-cookie", fmt.Sprintf("the plugin exited (%d) although the cookie was right", o.ExitCode))
		return res
	}
	lines := strings.Split(string(o.Stdout), "\n")
	first := lines[0]
	parts := strings.Split(first, "|")
	wantFields := 6
	if p.MuxEnv == "true" || p.MuxEnv == "false" || p.MuxEnv == "junk" {
		wantFields = 7
	}
	if len(parts) != wantFields {
		viol("field-count", fmt.Sprintf("handshake line has %d fields, want %d", len(parts), wantFields))
	}
	if len(parts) >= 6 {
		if parts[0] != "1" {
			viol("core-field", "core protocol field is "+parts[0])
		}
		wantV := "1"
		if p.Sets == "versioned" {
			wantV = "2"
		}
		if p.Versions != "" {
			// which version comes out of an odd list is decided by C02; here it only has to be a number
			if _, err := strconv.Atoi(parts[1]); err != nil {
				viol("version-field", "announced version is not a number: "+parts[1])
			}
		} else if parts[1] != wantV {
			viol("version-field", fmt.Sprintf("announced version %s, want %s", parts[1], wantV))
		}
		if p.SockDir != "" && !strings.Contains(parts[3], "/"+p.SockDir+"/") {
			viol("address-field", fmt.Sprintf("the announced address %q is not inside the socket directory %q the plugin was given", parts[3], p.SockDir))
		}
		if parts[2] != "unix" || parts[3] == "" {
			viol("address-field", "network/address fields: "+parts[2]+" "+parts[3])
		}
		if parts[4] != p.Proto {
			viol("protocol-field", "protocol field is "+parts[4])
		}
		if (p.TLS == "clientcert") != (parts[5] != "") {
			viol("cert-field", fmt.Sprintf("certificate field present=%v with TLS mode %s", parts[5] != "", p.TLS))
		}
		if len(parts) == 7 && parts[6] != "true" {
			viol("mux-field", "seventh field is "+parts[6])
		}
	}
	if rest := strings.TrimSpace(strings.Join(lines[1:], "\n")); rest != "" {
		viol("extra-stdout", fmt.Sprintf("go-plugin wrote more than the handshake line to the real stdout: %q", trunc(rest, 100)))
	}
	if o.DialErr != "" {
		viol("not-accepting", "an immediate connect to the announced address failed: "+o.DialErr)
	}
	if o.Traced {
		res.Counters["serving_traced"]++
		if o.Stdout1Writes == 0 {
			return CaseResult{Verdict: "inconclusive", Inconcl: "strace saw no write to fd 1", Class: res.Class}
		}
		if !o.ListenBefore {
			viol("line-before-listen", "the handshake line was written before listen() on the announced socket")
		}
		if o.Stdout1Writes != 1 {
			viol("extra-stdout-writes", fmt.Sprintf("%d write(1, ...) calls, want exactly one", o.Stdout1Writes))
		}
	}
	return res
}

func init() {
	register(&Prop{
		ID: "C16", Level: "exploration", Race: true, TestName: "TestC16",
		Gen: c16Gen, Batch: 16, Children: 6, PerCase: 3 * time.Second, Base: 120 * time.Second,
		Judge: c16Judge,
		Finish: func(r *Run) {
			works := true
			for i := range r.Batch {
				if r.Batch[i].Op == "strace" {
					var b bool
					decodeD(&r.Batch[i], &b)
					works = works && b
				}
			}
			r.Extra["strace_available"] = works
			if works && len(r.Cases) > 20 && (r.Counters["refusals_traced"] == 0 || r.Counters["serving_traced"] == 0) {
				r.Inconcl = append(r.Inconcl, fmt.Sprintf("strace observations missing: %v", r.Counters))
			}
		},
		Rule:        "the harness is the host: the scripted plugin binary is executed directly with cookie variable {unset, empty, prefix, suffix, case change, other, padded, correct} x configured cookie {normal, empty key, empty value} x protocol x TLS mode {none, TLSProvider, PLUGIN_CLIENT_CERT given} x set layout x PLUGIN_MULTIPLEX_GRPC {unset, empty, true, false, junk}; raw stdout/stderr/exit status are read, the private sandbox is listed, the announced address is dialled at once, and strace (bind, listen, write) gives the syscall order: every refusal run is traced (a transient listener is only visible there), serving runs on a sample (all in thorough). Class = the full cell + traced",
		Assumptions: []string{"strace -f is available (it is in this sandbox); a traced run in which no write to fd 1 is seen is inconclusive", "'seven fields only when the host signalled it' = PLUGIN_MULTIPLEX_GRPC non-empty"},
	})
}
