package main

import (
	"fmt"
	"math/rand"
	"strings"
	"time"

	"verif/spec"
)

func c18Gen(r *rand.Rand, tier string) []spec.Case {
	var out []spec.Case
	n := 72
	if tier == "thorough" {
		n = 3000
	}
	protos := []string{"netrpc", "grpc", "grpcmux"}
	pool := []string{"dispense", "call", "h2p", "p2h", "stdio"}
	i := 0
	for len(out) < n {
		c := spec.C18Case{Proto: protos[i%3], TLS: []string{"none", "auto"}[(i/3)%2], Launch: []string{"cmd", "runner"}[(i/6)%2], ExitMs: pick(r, []int{0, 0, 50, 300})}
		m := r.Intn(6)
		if i < 12 {
			m = 0 // no history at all: plain start + kill
		}
		for j := 0; j < m; j++ {
			c.Steps = append(c.Steps, pick(r, pool))
		}
		if i >= 12 && i < 24 {
			c.Steps = []string{"h2p", "p2h"}
		}
		if c.Launch == "runner" && c.Proto != "netrpc" && r.Intn(3) != 0 {
			// a listener the plugin accepted and never closed: its socket lives in the runner's socket
			// directory, which is go-plugin's to remove (with a Cmd launch it would be the user's own leak)
			c.Steps = append(c.Steps, "p-accept-open")
		}
		if q := (i / 3) % 4; c.Proto != "netrpc" && (q == 0 || q == 1 && i%2 == 0 || q == 2 && i%2 == 1) {
			// plugin code that announces brokered servers from a background worker, still doing so while the
			// plugin shuts down: whatever those calls created must be gone when the plugin has exited
			c.Steps = append(c.Steps, "p-accept-storm")
		}
		if c.Proto == "grpc" && (i/3)%2 == 0 {
			c.Steps = append(c.Steps, "p-accept-twice")
		}
		if i%5 == 0 || i%5 == 2 {
			c.Steps = append(c.Steps, "h-accept-undialled")
		}
		if c.Proto == "grpcmux" && (i/3)%2 == 1 {
			// must be the last step: Kill follows while the unblocked listener is held
			c.Steps = append(c.Steps, "p2h-kill-at-unblock")
		}
		c.KeepConns = i%2 == 1
		c.KillRacesAccepts = c.Proto == "grpc" && i%3 == 1
		out = append(out, spec.Case{Kind: c.Proto, P: spec.MustJSON(c)})
		i++
	}
	// in-process test-mode servers that are cancelled after no host / one host used them
	for _, pr := range protos {
		for _, tm := range []string{"noconnect", "connect"} {
			if tm == "connect" && pr == "grpcmux" {
				continue
			}
			c := spec.C18Case{Proto: pr, TLS: "none", Launch: "inprocess", TestMode: tm}
			out = append(out, spec.Case{Kind: "solo:testmode", P: spec.MustJSON(c)})
		}
	}
	return out
}

func c18Judge(c spec.Case, evs []spec.Event, d *Death) CaseResult {
	var p spec.C18Case
	jsonUnmarshal(c.P, &p)
	if d != nil {
		return deathResult(d, "C18")
	}
	var o spec.C18Obs
	if !decodeD(findEv(evs, "ret", "shutdown"), &o) {
		return CaseResult{Verdict: "inconclusive", Inconcl: "no observation"}
	}
	if o.SetupErr != "" {
		return CaseResult{Verdict: "inconclusive", Inconcl: "setup: " + o.SetupErr}
	}
	res := CaseResult{Verdict: "held", Counters: map[string]int{}}
	kinds := map[string]bool{}
	for _, s := range p.Steps {
		kinds[s] = true
	}
	var ks []string
	for _, k := range []string{"dispense", "call", "h2p", "p2h", "stdio", "p-accept-open", "p-accept-storm", "p-accept-twice", "h-accept-undialled", "p2h-kill-at-unblock"} {
		if kinds[k] {
			ks = append(ks, k)
		}
	}
	res.Class = fmt.Sprintf("%s|tls=%s|%s|%s|keep=%v|storm=%v", p.Proto, p.TLS, p.Launch, strings.Join(ks, "+"), p.KeepConns, p.KillRacesAccepts)
	res.Sample = map[string]any{"case": p, "marker": o.Marker, "plugin_dir_left": o.PluginDirLeft, "host_dir_left": o.HostDirLeft, "goroutines_before": o.GoBefore, "goroutines_after": o.GoAfter, "wait_ms": o.GoWaitMs, "step_errs": o.StepErrs}
	viol := func(key, msg string) {
		res.Verdict = "violated"
		res.Violations = append(res.Violations, Violation{Key: "C18:" + key, Msg: fmt.Sprintf("%s [proto=%s tls=%s launch=%s steps=%v exitMs=%d]", msg, p.Proto, p.TLS, p.Launch, p.Steps, p.ExitMs)})
	}
	if len(o.StepErrs) > 0 {
		return CaseResult{Verdict: "inconclusive", Inconcl: fmt.Sprintf("history steps failed: %v", o.StepErrs), Class: res.Class}
	}
	if !o.KillReturned {
		viol("kill-hung", "Kill did not return within 30 s")
		return res
	}
	if p.TestMode != "" {
		res.Class = fmt.Sprintf("%s|testmode-%s", p.Proto, p.TestMode)
		res.Counters["testmode_servers"]++
		if o.CloseChMs < 0 {
			viol("testmode-closech-not-closed", "CloseCh of a test-mode server was not closed within 40 s of cancelling its context")
		}
	}
	if !o.Marker && p.TestMode == "" {
		return CaseResult{Verdict: "inconclusive", Inconcl: "the plugin did not exit gracefully (no marker): the property speaks about graceful exits", Class: res.Class}
	}
	res.Counters["graceful_shutdowns"]++
	if len(o.PluginDirLeft) > 0 {
		k := "plugin-side-socket-left"
		if p.Proto == "grpcmux" && len(p.Steps) == 0 {
			k = "plugin-side-socket-left:mux-main-listener"
		}
		viol(k, fmt.Sprintf("after a graceful exit the plugin's sandbox still holds %v", o.PluginDirLeft))
	}
	for _, f := range o.HostDirLeft {
		if strings.Contains(f, "plugin") {
			viol("host-side-left", fmt.Sprintf("after Kill the host-side temp dir still holds %v", o.HostDirLeft))
			break
		}
	}
	if len(o.HostTmpLeft) > 0 {
		viol("host-side-socket-left", fmt.Sprintf("after Kill, %d brokered-listener socket files created by the host side during the case remain in its temp dir: %v", len(o.HostTmpLeft), o.HostTmpLeft))
	}
	// (a client reattached to a test-mode server keeps its goroutines by design: its Kill is a no-op and
	// its wait goroutine polls the pid of this very process)
	if o.GoAfter > o.GoBefore && p.TestMode != "connect" {
		viol("goroutines-left", fmt.Sprintf("%d goroutines with go-plugin frames before the case, %d still %d ms after Kill, e.g.\n%s", o.GoBefore, o.GoAfter, o.GoWaitMs, o.GoSample))
	}
	return res
}

func init() {
	register(&Prop{
		ID: "C18", Level: "exploration", Race: true, TestName: "TestC18",
		Gen: c18Gen, Batch: 6, Children: 12, PerCase: 15 * time.Second, Base: 120 * time.Second,
		Judge: c18Judge,
		Finish: func(r *Run) {
			r.raceSummary("C18")
			if len(r.Cases) > 20 && r.Counters["graceful_shutdowns"] < len(r.Cases)/2 {
				r.Inconcl = append(r.Inconcl, fmt.Sprintf("too few graceful shutdowns observed: %v", r.Counters))
			}
		},
		Rule:        "cases = seeded histories (0-5 steps) of dispense / calls / brokered accept+dial host->plugin and plugin->host / stdio writes / a brokered listener the plugin accepts and keeps open (custom-runner launches) / a brokered id the plugin announces twice with nobody dialling it / a host-side Accept on an id the plugin never dials, still pending at Kill / (multiplexing) a host-side brokered listener that a knock has just unblocked when Kill arrives (held at a hook point) / plugin code that announces a brokered server every 5 ms from a background worker until shortly after Serve returned, followed by Kill, x protocol (net/rpc, gRPC, gRPC+mux) x TLS (none, AutoMTLS) x launch (Cmd, custom runner with socket dir) x plugin cleanup time; real subprocesses with private sandboxes on both sides, plus in-process test-mode servers (every protocol) cancelled after no host / one reattached host used them; only graceful exits (cleanup marker present) are judged. Monitors: listing of the plugin's sandbox and the host-side temp dir, and a goroutine dump of the host process filtered on go-plugin frames, compared with the count before the case and polled up to 10 s (one case at a time per host process). Class = protocol|TLS|launch|step kinds",
		Assumptions: []string{"the harness closes connections it dialled; servers started by AcceptAndServe are go-plugin's to stop", "goroutines started by grpc-go for a ClientConn are not go-plugin's"},
	})
}
