package main

import (
	"fmt"
	"math/rand"
	"strings"
	"time"

	"verif/spec"
)

func c03Gen(r *rand.Rand, tier string) []spec.Case {
	var out []spec.Case
	add := func(proto, scen, death string, arg int) {
		out = append(out, spec.Case{Kind: scen, P: spec.MustJSON(spec.C03Case{Proto: proto, Scenario: scen, Death: death, Arg: arg})})
	}
	for _, proto := range []string{"netrpc", "grpc", "grpcmux"} {
		for _, death := range []string{"kill", "exit"} {
			for _, h := range []string{"serve.cookieOK", "serve.listenerReady", "serve.lineWritten", "serve.serving"} {
				add(proto, "hook:"+h, death, 0)
			}
			switch proto {
			case "netrpc":
				add(proto, "hook:rpcserver.dispense.reserved", death, 0)
				add(proto, "hook:mux.accept.gotConn", death, 0)
			case "grpc":
				add(proto, "hook:grpcbroker.accept.listening", death, 0)
				add(proto, "hook:grpcstdio.chunkRead", death, 0)
			case "grpcmux":
				add(proto, "hook:grpcbroker.knock.sent", death, 0)
				add(proto, "hook:grpcstdio.chunkRead", death, 0)
			}
		}
		for _, s := range []string{"idle", "unary-self-kill", "unary-self-exit"} {
			add(proto, s, "kill", 0)
		}
		for _, ms := range []int{100, 400} {
			add(proto, "slow-unary", "kill", ms)
			add(proto, "broker-id-issued", "kill", ms)
			add(proto, "host-accept-inflight", "kill", ms)
		}
		for _, ms := range []int{0, 200} {
			add(proto, "sync-writer-drained-after-kill", "kill", ms)
		}
		for _, ms := range []int{100, 600} {
			add(proto, "plugin-dial-parked", "kill", ms)
		}
		if proto != "netrpc" {
			add(proto, "stream", "kill", 0)
			for _, ms := range []int{0, 300} {
				add(proto, "host-send-inflight", "kill", ms)
			}
		}
		// mid-handshake: the line cut at every '|' boundary, mid-field, before/after the newline
		lineLen := len("1|1|unix|/nonexistent/sock|" + strings.TrimSuffix(proto, "mux") + "|")
		if proto == "grpcmux" {
			lineLen += len("|true")
		}
		lineLen++ // newline
		offs := []int{0, 1, 2, 3, 4, 6, 9, 15, 26, 27, 28, 29, 30, lineLen - 7, lineLen - 2, lineLen - 1, lineLen}
		if tier == "thorough" {
			offs = nil
			for k := 0; k <= lineLen; k++ {
				offs = append(offs, k)
			}
		}
		for _, k := range offs {
			if k >= 0 {
				add(proto, "partial:"+fmt.Sprint(k), "exit", k)
			}
		}
		// a started plugin that had put more lines on its stdout together with the handshake line, and
		// then ends by itself
		for _, n := range []int{1, 2, 5} {
			add(proto, "line-plus-more", "kill", n)
			add(proto, "line-plus-more", "exit", n)
		}
		nrand := 6
		if tier == "thorough" {
			nrand = 1000
		}
		for i := 0; i < nrand; i++ {
			add(proto, "random-instant", "kill", r.Intn(800))
		}
	}
	if tier == "thorough" {
		// repeat the enumerated scenarios a few times (schedules differ)
		base := append([]spec.Case(nil), out...)
		for rep := 0; rep < 2; rep++ {
			for _, c := range base {
				if c.Kind != "random-instant" && !strings.HasPrefix(c.Kind, "partial:") {
					out = append(out, c)
				}
			}
		}
	}
	return out
}

func c03Judge(c spec.Case, evs []spec.Event, d *Death) CaseResult {
	var p spec.C03Case
	jsonUnmarshal(c.P, &p)
	scen := p.Scenario
	if strings.HasPrefix(scen, "partial:") {
		scen = "partial"
	}
	res := CaseResult{Verdict: "held", Counters: map[string]int{}}
	res.Class = fmt.Sprintf("%s|%s|%s", p.Proto, p.Scenario, p.Death)
	if scen == "random-instant" {
		res.Class = fmt.Sprintf("%s|random-instant|%dms", p.Proto, p.Arg/100*100)
	}
	viol := func(key, msg string) {
		res.Verdict = "violated"
		res.Violations = append(res.Violations, Violation{Key: "C03:" + key, Msg: fmt.Sprintf("%s [proto=%s scenario=%s death=%s arg=%d]", msg, p.Proto, p.Scenario, p.Death, p.Arg)})
	}
	if d != nil {
		k := "host-died:" + scen
		if strings.HasPrefix(d.ExitErr, "watchdog") {
			k = "host-hung:" + scen
		}
		if strings.HasPrefix(d.ExitErr, "start:") || strings.HasPrefix(d.ExitErr, "child ended without") {
			return CaseResult{Verdict: "inconclusive", Inconcl: d.ExitErr}
		}
		viol(k, "host process died: "+d.ExitErr+"\n"+trunc(d.Stderr, 3000))
		return res
	}
	var o spec.C03Obs
	if !decodeD(findEv(evs, "obs", "end"), &o) {
		return CaseResult{Verdict: "inconclusive", Inconcl: "no end observation"}
	}
	var summary []string
	for _, cl := range o.Calls {
		s := "ok"
		if !cl.Returned {
			s = "HUNG"
		} else if !cl.OK {
			s = "err"
		}
		summary = append(summary, fmt.Sprintf("%s:%s=%s(%dms)", cl.Phase, cl.Op, s, cl.Ms))
	}
	res.Sample = map[string]any{"proto": p.Proto, "scenario": p.Scenario, "death": p.Death, "died_after_ms": o.DiedMs, "calls": summary, "exited_ms": o.ExitedMs, "ctx_cancelled": o.CtxCancelled}
	if !o.Died {
		return CaseResult{Verdict: "inconclusive", Inconcl: fmt.Sprintf("the plugin did not die (crash point not reached?) scenario=%s proto=%s calls=%v", p.Scenario, p.Proto, summary), Class: res.Class}
	}
	needErr := func(cl spec.C03Call) bool {
		switch cl.Phase {
		case "inflight":
			switch cl.Op {
			case "Dispense", "BrokerDial", "Call(sigkill)", "Call(exit)", "Call(sleep)", "Stream", "plugin:mux-accept", "plugin:mux-dial", "plugin:grpc-dial", "plugin:write":
				return true
			case "BrokerAccept":
				return p.Proto == "netrpc"
			}
		case "post":
			switch cl.Op {
			case "Ping", "Call(tag)", "BrokerDial", "BrokerAccept":
				return true
			case "Dispense":
				return p.Proto == "netrpc"
			}
		}
		return false
	}
	for _, cl := range o.Calls {
		res.Counters["calls"]++
		res.Counters["calls_"+cl.Phase]++
		if cl.Panic != "" {
			viol("panic:"+cl.Op, fmt.Sprintf("%s (%s) panicked in the host: %s", cl.Op, cl.Phase, cl.Panic))
			continue
		}
		if !cl.Returned {
			viol("call-hung:"+cl.Phase+":"+cl.Op, fmt.Sprintf("%s (%s the plugin's death) had not returned after %d ms\n%s", cl.Op, map[string]string{"pre": "before", "inflight": "in flight at", "post": "issued after"}[cl.Phase], cl.Ms, o.Dump))
			continue
		}
		if needErr(cl) && cl.OK {
			viol("success-without-plugin:"+cl.Phase+":"+cl.Op, fmt.Sprintf("%s (%s) reported success although it needed the dead plugin", cl.Op, cl.Phase))
		}
		if cl.Ms > 8000 {
			res.Slow = fmt.Sprintf("%s took %d ms", cl.Op, cl.Ms)
		}
	}
	// a Start that already failed must keep failing (the plugin is dead, nothing was accepted)
	preStartFailed, postStartOK := false, false
	for _, cl := range o.Calls {
		if cl.Op == "Start" && cl.Phase == "pre" && cl.Returned && !cl.OK {
			preStartFailed = true
		}
		if cl.Op == "Start" && cl.Phase == "post" && cl.Returned && cl.OK {
			postStartOK = true
		}
	}
	if preStartFailed && postStartOK {
		viol("start-succeeds-after-failed-start", "Start failed while the plugin died mid handshake, but a later Start on the same client returned success")
	}
	if !o.ExitedTrue {
		viol("exited-never-true", "Exited() was still false 24 s after the plugin process died")
	}
	if o.HaveCtx && !o.CtxCancelled {
		viol("grpc-context-not-cancelled", "the context handed to the gRPC plugin client was not cancelled within 24 s of the plugin's death")
	}
	if !o.KillReturned {
		viol("kill-hung", "Kill after the plugin's death did not return within 24 s\n"+o.Dump)
	}
	return res
}

func init() {
	register(&Prop{
		ID: "C03", Level: "fault_enumeration", Race: true, TestName: "TestC03",
		Gen: c03Gen, Batch: 14, Children: 10, PerCase: 8 * time.Second, Base: 180 * time.Second,
		Judge: c03Judge,
		Finish: func(r *Run) {
			r.raceSummary("C03")
			if len(r.Cases) > 30 && r.Counters["calls_post"] < len(r.Cases) {
				r.Inconcl = append(r.Inconcl, fmt.Sprintf("too few post-death calls observed: %v", r.Counters))
			}
		},
		Rule: "enumerated crash points x protocol (net/rpc, gRPC, gRPC+mux) x host operation in flight, against real plugin subprocesses: (a) hook points inside go-plugin on the plugin side armed to SIGKILL or os.Exit(3) on first hit (serve.cookieOK, serve.listenerReady, serve.lineWritten, serve.serving, rpcserver.dispense.reserved, mux.accept.gotConn, grpcbroker.accept.listening, grpcbroker.knock.sent, grpcstdio.chunkRead); (b) points in the scripted plugin (handshake line cut at every boundary / mid-field offset, inside a unary handler by SIGKILL and by exit, a slow unary call, a stream after 3 messages, after a broker id was issued but before accept, with a host-side broker Accept in flight, with a stream the plugin dialled parked unaccepted in the host's broker, with a host-side broker message (listener address / knock) between the host's stream goroutine and the wire: host-side hook grpcbroker.stream.sending; with the host's SyncStdout writer blocked mid-Write (a pipe the host only drains after Kill returned)); (c) external SIGKILL while idle and at seeded instants during a continuous mix of Ping/call/Dispense/large-response traffic. After the death a fixed battery of subsequent calls runs. Every call is recorded with phase, return, error; Exited() and the gRPC client context are polled. Class = protocol|scenario|death",
		Assumptions: []string{
			"nominal bounds <= 6 s (5 s broker windows, StartTimeout 3 s); a call counts as hung after 24 s",
			"'needed the plugin' table: in-flight Dispense / broker dial / plugin-side broker ops / unary calls / stream, and subsequent Ping, call on a dispensed client, net/rpc Dispense, broker dial, MuxBroker accept must return errors; gRPC Client()/Dispense are lazy and only have to return; Start/Client after the death only have to return",
			"a crash point that was never reached makes the case inconclusive, not held",
		},
	})
}
