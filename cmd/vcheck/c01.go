package main

import (
	"bytes"
	"crypto/ecdsa"
	"crypto/elliptic"
	crand "crypto/rand"
	"crypto/x509"
	"crypto/x509/pkix"
	"encoding/base64"
	"fmt"
	"math/big"
	"math/rand"
	"net"
	"strconv"
	"strings"
	"time"

	"verif/spec"
)

// ---- reference model of the statement (necessary conditions for success) ----

type c01Expect struct {
	HasLine    bool
	MustReject []string // reasons; empty => may succeed
	Proto      string
	Version    int
	Net, Addr  string
}

func realCertB64() string {
	key, _ := ecdsa.GenerateKey(elliptic.P256(), crand.Reader)
	tmpl := &x509.Certificate{SerialNumber: big.NewInt(7), Subject: pkix.Name{CommonName: "localhost"},
		NotBefore: time.Now().Add(-time.Hour), NotAfter: time.Now().Add(24 * time.Hour), IsCA: true, BasicConstraintsValid: true, DNSNames: []string{"localhost"}}
	der, _ := x509.CreateCertificate(crand.Reader, tmpl, tmpl, key.Public(), key)
	return base64.RawStdEncoding.EncodeToString(der)
}

var c01Cert = realCertB64()

// firstLine mirrors what "the first line a plugin writes" means for a line
// reader: bytes up to the first \n (one trailing \r dropped); with no \n the
// unterminated bytes count as a line only once the stream ends. A line longer
// than a line reader's buffer is not required to be accepted.
func c01FirstLine(b []byte, end string) (string, bool) {
	i := bytes.IndexByte(b, '\n')
	if i < 0 {
		if end == "open" || len(b) == 0 {
			return "", false
		}
		i = len(b)
	}
	l := b[:i]
	if len(l) > 0 && l[len(l)-1] == '\r' {
		l = l[:len(l)-1]
	}
	return string(l), true
}

func c01Reference(p *spec.C01Case) c01Expect {
	var x c01Expect
	line, ok := c01FirstLine(p.Line, p.End)
	x.HasLine = ok
	if !ok {
		x.MustReject = append(x.MustReject, "no-line")
		return x
	}
	if len(line) >= 64*1024 {
		x.MustReject = append(x.MustReject, "oversize")
		return x
	}
	parts := strings.Split(strings.TrimSpace(line), "|")
	if len(parts) < 4 {
		x.MustReject = append(x.MustReject, "short")
		return x
	}
	if v, err := strconv.Atoi(parts[0]); err != nil || v != 1 {
		x.MustReject = append(x.MustReject, "core")
	}
	v, err := strconv.Atoi(parts[1])
	offered := false
	for _, o := range spec.C01Offered(p.Sets) {
		if err == nil && o == v {
			offered = true
		}
	}
	if !offered {
		x.MustReject = append(x.MustReject, "version")
	}
	x.Version = v
	switch parts[2] {
	case "tcp":
		a, err := net.ResolveTCPAddr("tcp", parts[3])
		if err != nil {
			x.MustReject = append(x.MustReject, "address")
		} else {
			x.Net, x.Addr = "tcp", a.String()
		}
	case "unix":
		a, err := net.ResolveUnixAddr("unix", parts[3])
		if err != nil {
			x.MustReject = append(x.MustReject, "address")
		} else {
			x.Net, x.Addr = "unix", a.String()
		}
	default:
		x.MustReject = append(x.MustReject, "network")
	}
	x.Proto = "netrpc"
	if len(parts) >= 5 {
		x.Proto = parts[4]
	}
	allowed := p.Allowed
	if allowed == nil {
		allowed = []string{"netrpc"}
	}
	okp := false
	for _, a := range allowed {
		if a == x.Proto {
			okp = true
		}
	}
	if !okp {
		x.MustReject = append(x.MustReject, "protocol")
	}
	if len(parts) >= 6 && len(parts[5]) > 50 {
		der, err := base64.RawStdEncoding.DecodeString(parts[5])
		if err != nil {
			x.MustReject = append(x.MustReject, "cert")
		} else if _, err := x509.ParseCertificate(der); err != nil {
			x.MustReject = append(x.MustReject, "cert")
		}
	}
	if p.Mux && x.Proto == "grpc" {
		if len(parts) <= 6 {
			x.MustReject = append(x.MustReject, "mux")
		} else if b, err := strconv.ParseBool(parts[6]); err != nil || !b {
			x.MustReject = append(x.MustReject, "mux")
		}
	}
	return x
}

// ---- generator ----

var (
	c01Core  = []string{"1", "01", "+1", "0", "2", "-1", "", "x", "1.0", "99999999999999999999", "١", "1 ", "0x1", "0b1", "0o1", "1_", "0_1", "１", "1e0", "true"}
	c01Ver   = []string{"1", "2", "3", "0", "4", "", "abc", "1e3", "99999999999999999999", "-1", "+2", "02", "8", "10", "010", "012", "0x1", "0X2", "0b1", "0b10", "0o1", "0o10", "1_0", "1_", "0x8", "0xa", "0xA", "２", "2.0", " 2", "2 ", "1e1", "-0", "+0", "00"}
	c01Net   = []string{"tcp", "unix", "", "udp", "TCP", "tcp4", "unixgram", "junk", "unix "}
	c01AddrT = []string{":1234", "127.0.0.1:80", "127.0.0.1:99999", "[::1]:1", "[fe80::1%lo]:1234", "[fe80::1%nosuchif0]:1", "[::ffff:127.0.0.1]:7", "127.0.0.1:0", "nohost", "", "127.0.0.1", "127.0.0.1:-1", "1.2.3.4:http", "[::1", "999.1.1.1:1"}
	c01AddrU = []string{"/p/x.sock", "", "relative.sock", "/" + strings.Repeat("a", 200), "@abstract", "/tmp/with space"}
	c01Proto = []string{"\x00absent", "netrpc", "grpc", "", "GRPC", "junk", "netrpc "}
	c01Mux   = []string{"\x00absent", "true", "false", "1", "0", "T", "yes", "", "TRUE", "t"}
	c01Wrap  = []string{"lf", "crlf", "lead-blank", "trail-blank", "tabs", "noeol-exit", "noeol-close", "noeol-open", "nul-prefix", "nul-inside", "oversize", "empty-line-first", "second-line", "only-newline", "empty", "blank-then-silence", "blanks-crlf-then-silence", "blank-lines-then-line"}
	c01SetsL = []string{"legacy1", "versioned12", "v0", "both123", "versioned8_10", "versioned02"}
	c01TLSL  = []string{"none", "static", "auto"}
)

func c01CertPool() []string {
	return []string{"\x00absent", "", "shortjunk", strings.Repeat("!", 60), base64.RawStdEncoding.EncodeToString(bytes.Repeat([]byte("notder"), 12)),
		c01Cert, c01Cert + "==", base64.StdEncoding.EncodeToString(bytes.Repeat([]byte{1, 2, 3, 4, 5}, 20)), c01Cert[:len(c01Cert)-8]}
}

var c01AllowedL = [][]string{nil, {"netrpc"}, {"grpc"}, {"netrpc", "grpc"}}

type c01Fields struct{ core, ver, network, addr, proto, cert, mux, extra string }

func (f c01Fields) line() string {
	parts := []string{f.core, f.ver, f.network, f.addr}
	abs := func(s string) bool { return s == "\x00absent" }
	if !abs(f.proto) || !abs(f.cert) || !abs(f.mux) {
		if abs(f.proto) {
			parts = append(parts, "netrpc")
		} else {
			parts = append(parts, f.proto)
		}
	}
	if !abs(f.cert) || !abs(f.mux) {
		if abs(f.cert) {
			parts = append(parts, "")
		} else {
			parts = append(parts, f.cert)
		}
	}
	if !abs(f.mux) {
		parts = append(parts, f.mux)
	}
	if f.extra != "" {
		parts = append(parts, f.extra)
	}
	return strings.Join(parts, "|")
}

func c01Wrapper(line, w string) ([]byte, string) {
	switch w {
	case "lf":
		return []byte(line + "\n"), "open"
	case "crlf":
		return []byte(line + "\r\n"), "open"
	case "lead-blank":
		return []byte("  \t" + line + "\n"), "open"
	case "trail-blank":
		return []byte(line + " \t \n"), "open"
	case "tabs":
		return []byte("\t" + line + "\t\r\n"), "open"
	case "noeol-exit":
		return []byte(line), "exit"
	case "noeol-close":
		return []byte(line), "close"
	case "noeol-open":
		return []byte(line), "open"
	case "nul-prefix":
		return []byte("\x00" + line + "\n"), "open"
	case "nul-inside":
		return []byte(strings.Replace(line, "|", "\x00|", 1) + "\n"), "open"
	case "oversize":
		return []byte(line + "|" + strings.Repeat("z", 70*1024) + "\n"), "open"
	case "empty-line-first":
		return []byte("\n" + line + "\n"), "open"
	case "second-line":
		return []byte(line + "\nsome later output\n"), "open"
	case "only-newline":
		return []byte("\n"), "exit"
	case "blank-then-silence":
		return []byte("\n"), "open"
	case "blanks-crlf-then-silence":
		return []byte("  \t \r\n"), "open"
	case "blank-lines-then-line":
		return []byte("\n \r\n" + line + "\n"), "open"
	case "empty":
		return nil, "exit"
	}
	return []byte(line + "\n"), "open"
}

func pick[T any](r *rand.Rand, xs []T) T { return xs[r.Intn(len(xs))] }

// validFor builds a line that satisfies every condition for the config.
func c01ValidFor(r *rand.Rand, p *spec.C01Case) c01Fields {
	f := c01Fields{core: "1", proto: "\x00absent", cert: "\x00absent", mux: "\x00absent"}
	off := spec.C01Offered(p.Sets)
	f.ver = strconv.Itoa(off[r.Intn(len(off))])
	if r.Intn(2) == 0 {
		f.network, f.addr = "tcp", pick(r, []string{":1234", "127.0.0.1:80", "[::1]:1", "[fe80::1%lo]:1234"})
	} else {
		f.network, f.addr = "unix", pick(r, []string{"/p/x.sock", "relative.sock", "/tmp/with space"})
	}
	allowed := p.Allowed
	if allowed == nil {
		allowed = []string{"netrpc"}
	}
	pr := allowed[r.Intn(len(allowed))]
	if pr != "netrpc" || r.Intn(2) == 0 {
		f.proto = pr
	}
	if p.TLS != "none" && r.Intn(2) == 0 {
		f.cert = c01Cert
	} else if r.Intn(3) == 0 {
		f.cert = ""
	}
	if p.Mux && pr == "grpc" {
		f.mux = pick(r, []string{"true", "1", "T", "t", "TRUE"})
	} else if r.Intn(4) == 0 {
		f.mux = pick(r, []string{"true", "false"})
	}
	return f
}

func c01RandCfg(r *rand.Rand) spec.C01Case {
	return spec.C01Case{Allowed: pick(r, c01AllowedL), Sets: pick(r, c01SetsL), TLS: pick(r, c01TLSL), Mux: r.Intn(2) == 0, TimeoutMs: 400}
}

func c01Gen(r *rand.Rand, tier string) []spec.Case {
	var out []spec.Case
	add := func(kind string, p spec.C01Case) {
		out = append(out, spec.Case{Kind: kind, P: spec.MustJSON(p)})
	}
	// 1. a valid line for every configuration (success paths)
	for _, a := range c01AllowedL {
		for _, s := range c01SetsL {
			for _, t := range c01TLSL {
				for _, m := range []bool{false, true} {
					p := spec.C01Case{Allowed: a, Sets: s, TLS: t, Mux: m, TimeoutMs: 400}
					f := c01ValidFor(r, &p)
					p.Line, p.End = c01Wrapper(f.line(), pick(r, []string{"lf", "crlf", "lf", "noeol-exit"}))
					add("valid", p)
				}
			}
		}
	}
	// 2. one field replaced by each pool value, all else valid
	type fieldPool struct {
		name string
		pool []string
		set  func(*c01Fields, string)
	}
	pools := []fieldPool{
		{"core", c01Core, func(f *c01Fields, v string) { f.core = v }},
		{"ver", c01Ver, func(f *c01Fields, v string) { f.ver = v }},
		{"net", c01Net, func(f *c01Fields, v string) { f.network = v }},
		{"addrT", c01AddrT, func(f *c01Fields, v string) { f.network, f.addr = "tcp", v }},
		{"addrU", c01AddrU, func(f *c01Fields, v string) { f.network, f.addr = "unix", v }},
		{"proto", c01Proto, func(f *c01Fields, v string) { f.proto = v }},
		{"cert", c01CertPool(), func(f *c01Fields, v string) { f.cert = v }},
		{"mux", c01Mux, func(f *c01Fields, v string) { f.mux = v }},
		{"extra", []string{"x", "", "true|more"}, func(f *c01Fields, v string) {
			f.extra = v
			if f.mux == "\x00absent" {
				f.mux = "true"
			}
		}},
	}
	reps := 3
	if tier == "thorough" {
		reps = 12
	}
	for _, fp := range pools {
		for _, v := range fp.pool {
			for k := 0; k < reps; k++ {
				p := c01RandCfg(r)
				f := c01ValidFor(r, &p)
				fp.set(&f, v)
				p.Line, p.End = c01Wrapper(f.line(), "lf")
				add("one-field:"+fp.name, p)
			}
		}
	}
	// 2a'. every certificate-field value against a client whose static TLSConfig already has trust roots
	// of its own (own PRNG stream: the cases that follow are drawn as before)
	{
		r2 := rand.New(rand.NewSource(int64(7919 + len(out))))
		for _, v := range c01CertPool() {
			for k := 0; k < 2; k++ {
				p := c01RandCfg(r2)
				p.TLS = "static-roots"
				f := c01ValidFor(r2, &p)
				f.cert = v
				p.Line, p.End = c01Wrapper(f.line(), "lf")
				add("one-field:cert", p)
			}
		}
	}
	// 2a''. lines with more than seven fields: the multiplexing flag is the seventh field whatever follows it
	{
		r2 := rand.New(rand.NewSource(int64(104729 + len(out))))
		for _, v := range [][2]string{{"false", "true"}, {"garbage", "1"}, {"", "T"}, {"0", "true"}, {"true", "false"}, {"true", "x"}, {"T", ""}, {"false", "x|true"}} {
			for k := 0; k < 3; k++ {
				p := c01RandCfg(r2)
				p.Allowed, p.Mux = []string{"netrpc", "grpc"}, k != 2
				f := c01ValidFor(r2, &p)
				f.proto, f.mux, f.extra = "grpc", v[0], v[1]
				if f.cert == "\x00absent" {
					f.cert = ""
				}
				p.Line, p.End = c01Wrapper(f.line(), "lf")
				add("one-field:extra", p)
			}
		}
	}
	// 2b. the last three fields interact with each other and with the configuration (protocol x allowed
	// list x multiplexing x TLS mode): their full cross product for every configuration, all else valid
	for _, a := range c01AllowedL {
		for _, t := range c01TLSL {
			for _, m := range []bool{false, true} {
				for _, pr := range []string{"\x00absent", "netrpc", "grpc", "", "junk"} {
					for _, ce := range []string{"\x00absent", "", c01Cert, "!!notbase64"} {
						for _, mx := range []string{"\x00absent", "true", "false", "1", "nope"} {
							if tier != "thorough" && r.Intn(2) == 0 {
								continue
							}
							p := spec.C01Case{Allowed: a, Sets: pick(r, c01SetsL), TLS: t, Mux: m, TimeoutMs: 400}
							f := c01ValidFor(r, &p)
							f.proto, f.cert, f.mux = pr, ce, mx
							p.Line, p.End = c01Wrapper(f.line(), "lf")
							add("cross:proto-cert-mux", p)
						}
					}
				}
			}
		}
	}
	// 3. wrappers around valid lines
	for _, w := range c01Wrap {
		for k := 0; k < reps; k++ {
			p := c01RandCfg(r)
			f := c01ValidFor(r, &p)
			p.Line, p.End = c01Wrapper(f.line(), w)
			add("wrap:"+w, p)
		}
	}
	// 4. missing fields: truncate a valid 7-field line after k fields
	for k := 0; k <= 7; k++ {
		for j := 0; j < reps; j++ {
			p := c01RandCfg(r)
			f := c01ValidFor(r, &p)
			if f.proto == "\x00absent" {
				f.proto = "netrpc"
				if p.Allowed != nil {
					f.proto = p.Allowed[0]
				}
			}
			if f.cert == "\x00absent" {
				f.cert = ""
			}
			if f.mux == "\x00absent" {
				f.mux = "true"
			}
			parts := strings.Split(f.line(), "|")
			if k < len(parts) {
				parts = parts[:k]
			}
			p.Line, p.End = c01Wrapper(strings.Join(parts, "|"), "lf")
			add(fmt.Sprintf("fields:%d", k), p)
		}
	}
	// 5. random combinations of pool values
	nrand := 500
	if tier == "thorough" {
		nrand = 80000
	}
	for i := 0; i < nrand; i++ {
		p := c01RandCfg(r)
		f := c01ValidFor(r, &p)
		// replace 1..3 fields
		for k := 1 + r.Intn(3); k > 0; k-- {
			fp := pools[r.Intn(len(pools))]
			fp.set(&f, pick(r, fp.pool))
		}
		p.Line, p.End = c01Wrapper(f.line(), pick(r, c01Wrap[:8]))
		add("random", p)
	}
	// 6. byte-level mutations of valid lines
	nmut := 200
	if tier == "thorough" {
		nmut = 30000
	}
	for i := 0; i < nmut; i++ {
		p := c01RandCfg(r)
		f := c01ValidFor(r, &p)
		b := []byte(f.line())
		switch r.Intn(5) {
		case 0: // bit flip
			if len(b) > 0 {
				b[r.Intn(len(b))] ^= 1 << uint(r.Intn(8))
			}
		case 1: // truncate
			b = b[:r.Intn(len(b)+1)]
		case 2: // delete a byte
			if len(b) > 0 {
				k := r.Intn(len(b))
				b = append(b[:k:k], b[k+1:]...)
			}
		case 3: // duplicate a field separator
			k := r.Intn(len(b) + 1)
			b = append(b[:k:k], append([]byte{'|'}, b[k:]...)...)
		case 4: // insert random byte
			k := r.Intn(len(b) + 1)
			b = append(b[:k:k], append([]byte{byte(r.Intn(256))}, b[k:]...)...)
		}
		p.Line = append(b, '\n')
		p.End = "open"
		add("mutate", p)
	}
	// 7. a sample through a real subprocess (cmdrunner path)
	nreal := 40
	if tier == "thorough" {
		nreal = 300
	}
	base := len(out)
	for i := 0; i < nreal; i++ {
		var p spec.C01Case
		if err := jsonUnmarshal(out[r.Intn(base)].P, &p); err != nil {
			continue
		}
		if len(p.Line) > 4096 {
			continue
		}
		p.Real = true
		p.TimeoutMs = 1500
		add("real", p)
	}
	return out
}

// ---- oracle ----

func c01Judge(c spec.Case, evs []spec.Event, d *Death) CaseResult {
	var p spec.C01Case
	jsonUnmarshal(c.P, &p)
	exp := c01Reference(&p)
	reason := strings.Join(exp.MustReject, "+")
	if d != nil {
		return deathResult(d, "C01")
	}
	var o spec.C01Obs
	if !decodeD(findEv(evs, "ret", "Start"), &o) {
		return CaseResult{Verdict: "inconclusive", Inconcl: "no Start return event"}
	}
	cfgClass := fmt.Sprintf("allowed=%v sets=%s tls=%s mux=%v", p.Allowed, p.Sets, p.TLS, p.Mux)
	res := CaseResult{Verdict: "held", Counters: map[string]int{}}
	viol := func(kind, msg string) {
		res.Verdict = "violated"
		res.Violations = append(res.Violations, Violation{Key: "C01:" + kind, Msg: fmt.Sprintf("%s; line=%q end=%s cfg={%s} obs=%+v", msg, trunc(string(p.Line), 300), p.End, cfgClass, o)})
	}
	sample := map[string]any{"line": trunc(string(p.Line), 200), "end": p.End, "cfg": cfgClass, "must_reject": exp.MustReject}
	N := time.Duration(p.TimeoutMs) * time.Millisecond
	outcome := ""
	switch {
	case !o.Returned:
		outcome = "hang"
		viol("hang", fmt.Sprintf("Start did not return within %dms (StartTimeout %v)\n%s", o.ElapsedMs, N, trunc(o.Dump, 3000)))
	case o.Panic != "":
		outcome = "panic"
		k := "panic"
		if len(exp.MustReject) == 0 || reason == "cert" || true {
			if p.TLS == "none" {
				k = "panic:cert-field-without-client-tls"
			}
		}
		viol(k, "host panicked in Start: "+o.Panic)
	case o.ErrNil:
		outcome = "accept"
		res.Counters["accepted"]++
		if o.AddrNil || o.AddrTypedNil {
			k := "nil-addr"
			switch {
			case contains(exp.MustReject, "network"):
				k = "nil-addr:unknown-network"
			case contains(exp.MustReject, "address"):
				k = "nil-addr:unresolvable-address"
			}
			viol(k, "Start returned a nil error with a nil address")
		} else if len(exp.MustReject) > 0 {
			viol("accepted-invalid:"+reason, "Start succeeded although the line fails: "+reason)
		} else {
			if o.Protocol != exp.Proto {
				viol("wrong-protocol", fmt.Sprintf("Protocol()=%q, line says %q", o.Protocol, exp.Proto))
			}
			if o.Version != exp.Version {
				viol("wrong-version", fmt.Sprintf("NegotiatedVersion()=%d, line says %d", o.Version, exp.Version))
			}
			if want := exp.Net + " " + exp.Addr; len(o.Addr2) > 0 && string(o.Addr2) != want {
				viol("wrong-address:second-start", fmt.Sprintf("a second Start on the started client returned %q, the line says %q", o.Addr2, want))
			} else if len(o.AddrRC) > 0 && string(o.AddrRC) != want {
				viol("wrong-address:reattach-config", fmt.Sprintf("ReattachConfig().Addr is %q, the line says %q", o.AddrRC, want))
			}
			if o.Net != exp.Net || string(o.Addr) != exp.Addr {
				viol("wrong-address", fmt.Sprintf("address %s/%q, line says %s/%q", o.Net, o.Addr, exp.Net, exp.Addr))
			}
		}
	default:
		outcome = "reject"
		res.Counters["rejected"]++
		if o.RetryOK || o.RetryProtocol != "" || o.RetryRC {
			viol("rejected-line-remembered", fmt.Sprintf("Start rejected the line (%s) but the client is left half-started: a second Start returns ok=%v addr=%q, Protocol()=%q, ReattachConfig()!=nil: %v", trunc(o.Err, 80), o.RetryOK, o.RetryAddr, o.RetryProtocol, o.RetryRC))
		}
		if len(exp.MustReject) == 0 {
			outcome = "strict-reject"
			res.Counters["strict_reject"]++
		}
	}
	if o.Returned && !o.KillReturned {
		viol("kill-hang", "Kill after Start did not return in 300 s")
	}
	if o.Returned && time.Duration(o.ElapsedMs)*time.Millisecond > N+2*time.Second {
		res.Slow = fmt.Sprintf("Start took %dms (StartTimeout %v)", o.ElapsedMs, N)
	}
	sample["outcome"] = outcome
	sample["err"] = trunc(o.Err, 120)
	res.Sample = sample
	real := ""
	if p.Real {
		real = " real"
		res.Counters["real_subprocess"]++
	}
	rs := reason
	if rs == "" {
		rs = "valid"
	}
	res.Class = fmt.Sprintf("%s | %s | tls=%s mux=%v%s", rs, outcome, p.TLS, p.Mux, real)
	return res
}

func contains(xs []string, s string) bool {
	for _, x := range xs {
		if x == s {
			return true
		}
	}
	return false
}

func c01Finish(r *Run) {
	if r.Counters["accepted"] == 0 || r.Counters["rejected"] == 0 {
		if len(r.Cases) > 50 {
			r.Inconcl = append(r.Inconcl, fmt.Sprintf("too little observed: accepted=%d rejected=%d", r.Counters["accepted"], r.Counters["rejected"]))
		}
	}
}

func init() {
	register(&Prop{
		ID: "C01", Level: "exploration", Race: true, TestName: "TestC01",
		Gen: c01Gen, Batch: 1500, Children: 4, PerCase: 300 * time.Millisecond, Base: 90 * time.Second,
		Judge: c01Judge, Finish: c01Finish,
		Rule: "cases = (first-stdout-line bytes, end-of-stream behaviour, client config); generated from per-field pools (one field off at a time, random 1-3 fields off, wrappers, field-count truncations, lines with 8-9 fields whose trailing field contradicts the seventh, byte mutations) x configs (AllowedProtocols x plugin-set layout x TLS mode x mux); a sample is replayed through a real subprocess. A behaviour class = (set of conditions the reference parser says the line fails | observed outcome | TLS | mux | real); every class counts as non-trivial",
		Assumptions: []string{
			"reference parser written from the statement: a cert field of <=50 chars is treated as 'no certificate present' (documented legacy extra data)",
			"rejecting a line that meets all conditions is allowed (statement says 'only if'); counted as strict_reject",
			"hang threshold H = max(4*StartTimeout, StartTimeout+15s); StartTimeout 400ms (1.5s for real subprocesses)",
			"addresses are literal IPs or unix paths; no DNS",
		},
	})
}
