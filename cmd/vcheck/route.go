package main

import (
	"fmt"
	"math/rand"
	"sort"
	"time"

	"verif/spec"
)

func gapBucket(ms int) string {
	switch {
	case ms == 0:
		return "0"
	case ms <= 50:
		return "<=50ms"
	case ms <= 500:
		return "<=500ms"
	default:
		return ">500ms"
	}
}

func routeGen(kind string, sequential bool) func(r *rand.Rand, tier string) []spec.Case {
	return func(r *rand.Rand, tier string) []spec.Case {
		var out []spec.Case
		rounds := map[string][2]int{"mux": {40, 2000}, "grpc": {30, 1500}, "grpcmux": {16, 300}}[kind]
		n := rounds[0]
		if tier == "thorough" {
			n = rounds[1]
		}
		for i := 0; i < n; i++ {
			p := spec.RouteCase{Kind: kind, Sequential: sequential, Seed: r.Int63n(1 << 30), JitterUs: 3000}
			k := 1 + r.Intn(64)
			if kind == "grpc" {
				k = 1 + r.Intn(32)
			}
			if sequential {
				k = 20 + r.Intn(30)
				if tier == "thorough" {
					k = 20 + r.Intn(180)
				}
			}
			if i < 3 {
				k = []int{1, 2, 8}[i] // small shapes always present
			}
			nextID := map[string]uint32{"host": 1000, "plugin": 1000} // per accepting side, like NextId
			if kind != "mux" {
				nextID = map[string]uint32{"host": 1, "plugin": 1}
			}
			wrapIDs := i%5 == 3 && !sequential
			if wrapIDs {
				// ids around the uint32 wrap: ..., MaxUint32-1, MaxUint32, 0, 1, ...
				nextID = map[string]uint32{"host": ^uint32(0) - uint32(r.Intn(3)), "plugin": ^uint32(0) - uint32(r.Intn(3))}
			}
			var open [][2]any
			for j := 0; j < k; j++ {
				it := spec.RouteItem{Dir: pick(r, []string{"host", "plugin"}), AcceptFirst: r.Intn(2) == 0, Len: r.Intn(5000)}
				accSide := "plugin"
				if it.Dir == "plugin" {
					accSide = "host"
				}
				if kind == "grpcmux" && len(open) > 0 && r.Intn(5) == 0 {
					o := open[r.Intn(len(open))]
					it.Redial, it.ID = true, o[1].(uint32)
					it.Dir = "host"
					if o[0].(string) == "host" {
						it.Dir = "plugin"
					}
					p.Items = append(p.Items, it)
					continue
				}
				if kind != "mux" && r.Intn(7) == 0 {
					it.SlowMs = pick(r, []int{150, 400})
				}
				it.ID = nextID[accSide]
				nextID[accSide]++
				open = append(open, [2]any{accSide, it.ID})
				switch x := r.Intn(20); {
				case x < 8:
					it.GapMs = 0
				case x < 17:
					it.GapMs = r.Intn(50)
				case x < 19:
					it.GapMs = 50 + r.Intn(450)
				default:
					if tier == "thorough" && !sequential {
						it.GapMs = 1000 + r.Intn(3000) // up to 4 s: strictly inside the 5 s window
					} else {
						it.GapMs = 200 + r.Intn(800)
					}
				}
				if sequential && it.GapMs > 200 {
					it.GapMs = r.Intn(200)
				}
				p.Items = append(p.Items, it)
			}
			if kind == "grpc" && i%4 == 3 {
				// a listener that is dialled 3.5 s after it was accepted, by a Dial that then takes 2.5 s between
				// learning the address and connecting: inside the window when issued, connected after it
				for k, side := range []string{"host", "plugin"} {
					p.Items = append(p.Items, spec.RouteItem{Dir: side, AcceptFirst: true, GapMs: 3500, HoldAtGotInfoMs: 2500, ID: 5000000 + uint32(len(out))*4 + uint32(k)})
				}
			}
			if kind == "grpc" && i%4 == 2 {
				// the callback shape: the same id number is used in the other direction first, and the dialling
				// side closes its own listener of that number between the pair's accept and dial
				for k, side := range []string{"host", "plugin"} {
					p.Items = append(p.Items, spec.RouteItem{Dir: side, AcceptFirst: true, GapMs: 200 + 400*k, CallbackShape: true, ID: 8000000 + uint32(len(out))*4 + uint32(k)})
				}
			}
			if kind == "grpc" && i%4 == 1 {
				// ids that were dialled once in vain (timed out) before their pair is established
				for k, side := range []string{"host", "plugin"} {
					p.Items = append(p.Items, spec.RouteItem{Dir: side, AcceptFirst: k == 0, GapMs: 300, StaleDial: true, ID: 3000000 + uint32(len(out))*4 + uint32(k)})
				}
			}
			if kind == "mux" && i%4 == 0 {
				// ids whose Accept is lined up with the arrival of their dial at the accepting side
				for k := 0; k < 24; k++ {
					p.Items = append(p.Items, spec.RouteItem{Dir: []string{"host", "plugin"}[k%2], LineUp: true, Len: r.Intn(300), ID: 6000000 + uint32(len(out))*64 + uint32(k)})
				}
			}
			if kind == "mux" && i%4 == 2 {
				// one pair whose accept comes late in the dial's pending window (4.0 s) and is then held for
				// 1.3 s between pick-up and acknowledgement, across the moment the parked dial would have
				// expired: both calls must still succeed and be each other's peers
				for k, side := range []string{"host", "plugin"} {
					p.Items = append(p.Items, spec.RouteItem{Dir: side, AcceptFirst: false, GapMs: 4000, HoldAtPickupMs: 1300, Len: r.Intn(3000),
						ID: 4000000 + uint32(len(out))*4 + uint32(k)})
				}
			}
			if kind == "mux" && i%4 == 1 {
				// one-way transfers to a slow consumer: the sender closes at once, the reader starts 6 s later
				for k, side := range []string{"host", "plugin"} {
					p.Items = append(p.Items, spec.RouteItem{Dir: side, AcceptFirst: k == 0, GapMs: 100, LateReadMs: 6000, Len: []int{300, 100000}[k],
						ID: 9000000 + uint32(len(out))*4 + uint32(k)})
				}
			}
			if kind == "mux" && i%4 == 0 {
				// connections that have been open for 6.5 s before they carry a payload larger than the session's
				// flow-control window (1 MiB; the accept side answers with the same)
				for k, side := range []string{"host", "plugin"} {
					p.Items = append(p.Items, spec.RouteItem{Dir: side, AcceptFirst: k == 0, GapMs: 50, DialHoldMs: 6500, Len: 1 << 20,
						ID: 9500000 + uint32(len(out))*4 + uint32(k)})
				}
			}
			if kind == "mux" && i%4 == 3 {
				// ids that were used before: an earlier pair on the id connected and finished; the judged pair's
				// first half is issued 4 s after that pair's dial and its second half 2 s later, so that
				// whatever bookkeeping the earlier dial left behind for its 5 s window ends in between
				for k, side := range []string{"host", "plugin"} {
					p.Items = append(p.Items, spec.RouteItem{Dir: side, AcceptFirst: (k+i/4)%2 == 0, GapMs: 2000, ReuseAfterMs: 4000, Len: r.Intn(3000),
						ID: 7000000 + uint32(len(out))*4 + uint32(k)})
				}
			}
			if kind == "mux" {
				p.DispG, p.DispN = 1+r.Intn(6), 1+r.Intn(5)
				if wrapIDs {
					p.DispG = 0 // dispenses reserve ids from the same counter range: keep them apart
				} else if i%5 == 1 {
					p.WrapDispense = true
				}
			}
			if kind == "grpcmux" && (i%8 == 4 || i%8 == 6) && len(p.Items) > 6 {
				// one establishment whose acceptor only starts serving 6 s after it registered
				// (slow server construction): the dialled connection's first call must still work
				for j := range p.Items {
					if j >= 3 && !p.Items[j].Redial && p.Items[j].Dir == "plugin" {
						p.Items[j].SlowMs, p.Items[j].AcceptFirst, p.Items[j].GapMs = 6000, true, 0
						p.Items = p.Items[:min(len(p.Items), j+6)]
						break
					}
				}
			}
			if kind == "grpcmux" && (i%8 == 1 || i%8 == 5) && len(p.Items) > 6 {
				// one establishment whose dialler keeps retrying (WaitForReady) and whose accept is issued in
				// the pause between its first, timed-out knock and gRPC's reconnect, by an acceptor that only
				// starts serving after that reconnect has knocked again; what follows it must be unaffected
				dir := []string{"plugin", "host"}[(i/4)%2]
				for j := range p.Items {
					if j >= 3 && !p.Items[j].Redial && p.Items[j].Dir == dir {
						p.Items[j].WaitReady, p.Items[j].AcceptFirst, p.Items[j].GapMs, p.Items[j].SlowMs = true, false, 5300+r.Intn(300), 2500
						p.Items = p.Items[:min(len(p.Items), j+6)]
						break
					}
				}
			}
			if kind == "grpcmux" && (i%8 == 0 || i%8 == 6) && len(p.Items) > 6 {
				// one establishment dialled first with a short per-attempt connect timeout and accepted 1 s
				// later (the attempts before the accept time out mid-knock); what follows must be unaffected
				dir := []string{"host", "plugin"}[(i/8)%2]
				for j := range p.Items {
					if j >= 2 && !p.Items[j].Redial && p.Items[j].Dir == dir && p.Items[j].SlowMs == 0 && !p.Items[j].WaitReady {
						p.Items[j].ShortConnect, p.Items[j].AcceptFirst, p.Items[j].GapMs = true, false, 1000
						break
					}
				}
			}
			if kind == "grpcmux" && i%8 == 2 {
				// listeners that are closed and whose id is accepted again at once, many times over, on both
				// sides: the new listener must get the next connection dialled for the id
				p.Items = p.Items[:0]
				for j := uint32(1); j <= 2; j++ {
					p.Items = append(p.Items, spec.RouteItem{Dir: "host", AcceptFirst: true, Raw: true, ID: j})
					p.Items = append(p.Items, spec.RouteItem{Dir: "plugin", AcceptFirst: true, Raw: true, ID: j})
				}
				for k := 0; k < 24; k++ {
					p.Items = append(p.Items, spec.RouteItem{Dir: []string{"host", "plugin"}[k%2], AcceptFirst: true, Reaccept: true, DoubleClose: k%8 >= 6, ID: uint32(1 + (k/2)%2)})
				}
			}
			if kind == "grpcmux" && i%4 == 3 {
				// a short sequence whose redials land on the instant the broker expires
				// the bookkeeping of the previous dial to the same listener (5 s later)
				p.Items = p.Items[:0]
				for j := uint32(1); j <= 4; j++ {
					p.Items = append(p.Items, spec.RouteItem{Dir: "host", AcceptFirst: true, ID: j})
					p.Items = append(p.Items, spec.RouteItem{Dir: "plugin", AcceptFirst: true, ID: j})
				}
				for j := uint32(1); j <= 4; j++ {
					p.Items = append(p.Items, spec.RouteItem{Dir: "host", Redial: true, AtExpiry: true, ID: j, SkewUs: r.Intn(3000) - 1500})
					p.Items = append(p.Items, spec.RouteItem{Dir: "plugin", Redial: true, AtExpiry: true, ID: j, SkewUs: r.Intn(3000) - 1500})
				}
			}
			out = append(out, spec.Case{Kind: kind, P: spec.MustJSON(p)})
		}
		if kind == "grpcmux" {
			// a listener that is closed at the moment a dial's stream arrives for it (in a host child of its
			// own: the moment is found through a hook point that carries no id); the pairs that follow must
			// be unaffected
			for _, side := range []string{"host", "plugin"} {
				p := spec.RouteCase{Kind: kind, Sequential: true, Seed: r.Int63n(1 << 30), JitterUs: 3000}
				for j := uint32(1); j <= 2; j++ {
					p.Items = append(p.Items, spec.RouteItem{Dir: "host", AcceptFirst: true, ID: j})
					p.Items = append(p.Items, spec.RouteItem{Dir: "plugin", AcceptFirst: true, ID: j})
				}
				p.Items = append(p.Items, spec.RouteItem{Dir: side, AcceptFirst: true, ClosedUnderDial: true, ID: 3})
				for j := uint32(4); j <= 6; j++ {
					p.Items = append(p.Items, spec.RouteItem{Dir: "host", AcceptFirst: j%2 == 0, ID: j})
					p.Items = append(p.Items, spec.RouteItem{Dir: "plugin", AcceptFirst: j%2 == 1, ID: j})
				}
				out = append(out, spec.Case{Kind: "solo:grpcmux/closed-under-dial:" + side, P: spec.MustJSON(p)})
			}
		}
		if kind == "mux" {
			// the same rounds between the host and a real net/rpc plugin process
			// (with and without AutoMTLS on the underlying connection)
			np := 4
			if tier == "thorough" {
				np = 60
			}
			for i := 0; i < np; i++ {
				p := spec.RouteCase{Kind: kind, Seed: r.Int63n(1 << 30), Proc: []string{"cmd", "runner"}[i%2], TLS: []string{"none", "auto"}[(i/2)%2], DispG: r.Intn(3)}
				k := 2 + r.Intn(20)
				nextID := map[string]uint32{"host": 1000, "plugin": 1000}
				for j := 0; j < k; j++ {
					it := spec.RouteItem{Dir: pick(r, []string{"host", "plugin"}), AcceptFirst: r.Intn(2) == 0, GapMs: pick(r, []int{0, 0, 10, 50, 300}), Len: r.Intn(5000)}
					accSide := "plugin"
					if it.Dir == "plugin" {
						accSide = "host"
					}
					it.ID = nextID[accSide]
					nextID[accSide]++
					p.Items = append(p.Items, it)
				}
				out = append(out, spec.Case{Kind: "mux-proc", P: spec.MustJSON(p)})
			}
		}
		if kind == "grpc" {
			// the same rounds through a real plugin subprocess: Cmd / custom runner /
			// custom runner whose plugin sees the socket directory under another path
			// (address translation in both directions), with and without AutoMTLS
			np := 8
			if tier == "thorough" {
				np = 64
			}
			for i := 0; i < np; i++ {
				p := spec.RouteCase{Kind: kind, Seed: r.Int63n(1 << 30), Proc: []string{"runner-translate", "runner-forward", "runner", "cmd"}[i%4], TLS: []string{"none", "auto"}[(i/4)%2]}
				k := 2 + r.Intn(14)
				nextID := map[string]uint32{"host": 1, "plugin": 1}
				for j := 0; j < k; j++ {
					it := spec.RouteItem{Dir: pick(r, []string{"host", "plugin"}), AcceptFirst: r.Intn(2) == 0, GapMs: pick(r, []int{0, 0, 10, 50, 300})}
					accSide := "plugin"
					if it.Dir == "plugin" {
						accSide = "host"
					}
					it.ID = nextID[accSide]
					nextID[accSide]++
					p.Items = append(p.Items, it)
				}
				out = append(out, spec.Case{Kind: "grpc-proc", P: spec.MustJSON(p)})
			}
		}
		return out
	}
}

func routeJudge(prop string) func(c spec.Case, evs []spec.Event, d *Death) CaseResult {
	return func(c spec.Case, evs []spec.Event, d *Death) CaseResult {
		var p spec.RouteCase
		jsonUnmarshal(c.P, &p)
		if d != nil {
			return deathResult(d, prop)
		}
		if e := findEv(evs, "note", "pair-error"); e != nil {
			return CaseResult{Verdict: "inconclusive", Inconcl: "pair setup: " + string(e.D)}
		}
		res := CaseResult{Verdict: "held", Counters: map[string]int{}}
		viol := func(key, msg string) {
			res.Verdict = "violated"
			if len(res.Violations) < 6 {
				res.Violations = append(res.Violations, Violation{Key: prop + ":" + key, Msg: msg})
			}
		}
		acc, dial := map[int]*spec.RouteObs{}, map[int]*spec.RouteObs{}
		accCall, dialCall := map[int]int64{}, map[int]int64{}
		var disp []spec.DispObs
		var healths []spec.RouteHealth
		var end spec.RouteEnd
		haveEnd := false
		for i := range evs {
			e := &evs[i]
			switch {
			case e.Ev == "call" && (e.Op == "accept" || e.Op == "dial"):
				var o spec.RouteObs
				decodeD(e, &o)
				if e.Op == "accept" {
					accCall[o.Idx] = e.T
				} else {
					dialCall[o.Idx] = e.T
				}
			case e.Ev == "ret" && e.Op == "accept":
				var o spec.RouteObs
				decodeD(e, &o)
				acc[o.Idx] = &o
			case e.Ev == "ret" && e.Op == "dial":
				var o spec.RouteObs
				decodeD(e, &o)
				dial[o.Idx] = &o
			case e.Ev == "obs" && e.Op == "dispense":
				var o spec.DispObs
				decodeD(e, &o)
				disp = append(disp, o)
			case e.Ev == "obs" && e.Op == "health":
				var h spec.RouteHealth
				decodeD(e, &h)
				healths = append(healths, h)
			case e.Ev == "obs" && e.Op == "end":
				decodeD(e, &end)
				haveEnd = true
			}
		}
		if !haveEnd {
			return CaseResult{Verdict: "inconclusive", Inconcl: "no end event"}
		}
		if !end.Returned {
			viol("hung", fmt.Sprintf("the round of %d accept/dial pairs did not complete within 150 s\n%s", len(p.Items), end.Dump))
		}
		shapes := map[string]bool{}
		listenerWant := map[string]string{}
		for i, it := range p.Items {
			shapes[fmt.Sprintf("%s/%v/%s", it.Dir, it.AcceptFirst, gapBucket(it.GapMs))] = true
			a, dd := acc[i], dial[i]
			desc := fmt.Sprintf("item %d: id %d (%s dials, acceptFirst=%v, gap %dms, redial=%v, %d items in the round)", i, it.ID, it.Dir, it.AcceptFirst, it.GapMs, it.Redial, len(p.Items))
			accSide := "plugin"
			if it.Dir == "plugin" {
				accSide = "host"
			}
			lk := fmt.Sprintf("%s/%d", accSide, it.ID)
			if it.Redial {
				res.Counters["redials"]++
				if dd == nil {
					if end.Returned {
						viol("missing-event", "no dial return recorded for "+desc)
					}
					continue
				}
				if dd.Err != "" {
					viol("redial-failed", fmt.Sprintf("%s: a second connection to the still-open listener failed: %s", desc, dd.Err))
				} else if dd.Msg != listenerWant[lk] {
					viol("misrouted", fmt.Sprintf("%s: second connection answered by %q, the listener accepted on this id answers %q", desc, dd.Msg, listenerWant[lk]))
				}
				continue
			}
			if a != nil {
				listenerWant[lk] = fmt.Sprintf("%d/%s", a.ID, a.Nonce)
			}
			if a == nil || dd == nil {
				if end.Returned {
					viol("missing-event", "no accept/dial return recorded for "+desc)
				}
				continue
			}
			res.Counters["pairs"]++
			if it.Reaccept {
				res.Counters["reaccepts"]++
			}
			if it.LineUp {
				res.Counters["accepts_lined_up_with_dial_arrival"]++
			}
			if it.ReuseAfterMs > 0 {
				res.Counters["pairs_on_an_id_used_before"]++
			}
			if it.LateReadMs > 0 {
				res.Counters["one_way_transfers_read_late"]++
			}
			if it.DialHoldMs > 0 {
				res.Counters["large_payloads_on_old_connections"]++
			}
			if it.ShortConnect {
				res.Counters["short_connect_timeout_dials"]++
			}
			if it.StaleDial {
				res.Counters["pairs_after_a_timed_out_dial"]++
			}
			if it.ClosedUnderDial {
				res.Counters["pairs_after_a_listener_closed_under_its_dial"]++
			}
			if it.CallbackShape {
				res.Counters["pairs_in_callback_shape"]++
			}
			if it.WaitReady {
				res.Counters["late_accepts_with_retrying_dialler"]++
				if dd.Err == "" {
					res.Counters["late_accepts_served"]++
				}
			}
			// "issued within the pending window": judged on the recorded call
			// instants, with a margin, so that a loaded machine stretching a 4 s
			// gap towards 5 s cannot manufacture an alarm
			measuredGap := accCall[i] - dialCall[i]
			if measuredGap < 0 {
				measuredGap = -measuredGap
			}
			insideWindow := measuredGap <= int64(4300*time.Millisecond)
			if !insideWindow {
				res.Counters["pairs_outside_window_not_judged"]++
			}
			ord := "dial-first"
			if it.AcceptFirst {
				ord = "accept-first"
			}
			if p.Kind == "mux" {
				if a.Err != "" || dd.Err != "" {
					if insideWindow {
						viol("pair-failed:"+ord, fmt.Sprintf("%s: accept err=%q dial err=%q (issued %d ms apart, inside the pending window)", desc, a.Err, dd.Err, measuredGap/1e6))
					}
					continue
				}
				if dd.PeerNonce != a.Nonce || a.PeerNonce != dd.Nonce || dd.PeerID != a.ID || a.PeerID != dd.ID {
					viol("misrouted", fmt.Sprintf("%s: dialler (nonce %s) reached an acceptor announcing id %d nonce %s; acceptor of this id (nonce %s) was reached by id %d nonce %s", desc, dd.Nonce, dd.PeerID, dd.PeerNonce, a.Nonce, a.PeerID, a.PeerNonce))
				}
				if !a.PayloadOK || !dd.PayloadOK {
					viol("payload-corrupt", fmt.Sprintf("%s: payload bytes differ (accept side ok=%v, dial side ok=%v)", desc, a.PayloadOK, dd.PayloadOK))
				}
				if a.Extra != 0 {
					viol("stray-bytes", fmt.Sprintf("%s: acceptor received %d bytes beyond the dialler's frame", desc, a.Extra))
				}
			} else {
				if dd.Err != "" {
					if insideWindow {
						viol("pair-failed:"+ord, fmt.Sprintf("%s: %s (accept and dial issued %d ms apart)", desc, dd.Err, measuredGap/1e6))
					}
					continue
				}
				if want := fmt.Sprintf("%d/%s", a.ID, a.Nonce); dd.Msg != want {
					k := "misrouted"
					viol(k, fmt.Sprintf("%s: first call answered by %q, the server accepted on this id answers %q", desc, dd.Msg, want))
				}
			}
			res.Counters["pairs_ok"]++
		}
		// dispenses
		serials := map[int64]bool{}
		for _, o := range disp {
			res.Counters["dispenses"]++
			if o.Err != "" {
				viol("dispense-failed", fmt.Sprintf("Dispense(%q) failed: %s", o.Want, o.Err))
				continue
			}
			if o.Name != o.Want {
				viol("dispense-misrouted", fmt.Sprintf("Dispense(%q) reached the server object created for %q (serial %d)", o.Want, o.Name, o.Serial))
			}
			if serials[o.Serial] {
				viol("dispense-shared-object", fmt.Sprintf("two dispenses reached the same server object (serial %d)", o.Serial))
			}
			serials[o.Serial] = true
		}
		for _, h := range healths {
			res.Counters["health_checks"]++
			if h.PingErr != "" {
				viol("control-ping-failed", fmt.Sprintf("after establishment %d: Ping on the control connection failed: %s", h.Idx, h.PingErr))
			}
			if h.CallErr != "" {
				viol("main-call-failed", fmt.Sprintf("after establishment %d: call on the dispensed client failed: %s", h.Idx, h.CallErr))
			}
			if !h.RepingOK {
				viol("earlier-connection-broken", fmt.Sprintf("after establishment %d: earlier brokered connections: %v", h.Idx, h.Reping))
			}
		}
		if p.Kind != "mux" && (p.Proc == "runner" || p.Proc == "runner-translate" || p.Proc == "runner-forward") {
			// every address crossing the host/plugin boundary must go through the runner's translator
			hostAccepts, hostDials := 0, 0
			for _, it := range p.Items {
				if it.Dir == "plugin" {
					hostAccepts++
				} else {
					hostDials++
				}
			}
			if end.Returned && end.H2PCalls < hostAccepts {
				viol("translator-skipped:HostToPlugin", fmt.Sprintf("%d host-side accepts but HostToPlugin was called %d times", hostAccepts, end.H2PCalls))
			}
			if end.Returned && end.P2HCalls < hostDials+1 {
				viol("translator-skipped:PluginToHost", fmt.Sprintf("%d host-side dials + the main address but PluginToHost was called %d times", hostDials, end.P2HCalls))
			}
			res.Counters["translator_calls"] += end.H2PCalls + end.P2HCalls
		}
		var ss []string
		for s := range shapes {
			ss = append(ss, s)
		}
		sort.Strings(ss)
		if end.MaxPend >= 8 {
			res.Counters["rounds_with_8_or_more_ids_pending_at_once"]++
		}
		res.Class = fmt.Sprintf("%s ids=%s maxpend=%s shapes=%d disp=%d proc=%s tls=%s", p.Kind, sizeBucket(len(p.Items)), sizeBucket(end.MaxPend), len(ss), p.DispG, p.Proc, p.TLS)
		res.Sample = map[string]any{"kind": p.Kind, "ids": len(p.Items), "max_concurrently_pending": end.MaxPend, "shapes": ss, "dispense_goroutines": p.DispG, "first_items": p.Items[:min(3, len(p.Items))]}
		return res
	}
}

func sizeBucket(n int) string {
	switch {
	case n <= 1:
		return "1"
	case n <= 4:
		return "2-4"
	case n <= 16:
		return "5-16"
	case n <= 40:
		return "17-40"
	default:
		return ">40"
	}
}

func routeFinish(prop string, needHooks ...string) func(r *Run) {
	return func(r *Run) {
		hooks := map[string]int{}
		for _, c := range r.Cases {
			var end spec.RouteEnd
			if decodeD(findEv(r.Events[c.ID], "obs", "end"), &end) {
				for k, v := range end.Hooks {
					if v > hooks[k] {
						hooks[k] = v // cumulative per child: keep the maximum
					}
				}
			}
		}
		r.Extra["hook_hits"] = hooks
		r.raceSummary(prop)
		if len(r.Cases) > 5 {
			for _, h := range needHooks {
				if hooks[h] == 0 {
					r.Inconcl = append(r.Inconcl, "hook point never hit: "+h)
				}
			}
			if r.Counters["pairs"] < len(r.Cases) {
				r.Inconcl = append(r.Inconcl, "too few pairs observed")
			}
		}
	}
}

func init() {
	register(&Prop{
		ID: "C06", Level: "exploration", Race: true, TestName: "TestC06",
		Gen: routeGen("mux", false), Batch: 10, Children: 4, PerCase: 8 * time.Second, Base: 120 * time.Second,
		Judge: routeJudge("C06"), Finish: routeFinish("C06", "mux.run.gotID", "mux.accept.gotConn", "mux.dial.wroteID", "rpcserver.dispense.reserved"),
		Rule:        "a case = one round on a fresh in-process net/rpc connection pair (both ends real go-plugin code): k in 1..64 distinct ids all outstanding concurrently, each with random dialling side, accept-first or dial-first, gap (0, <50 ms, <500 ms, up to 1 s quick / 4 s thorough) and payload length, concurrent with 1-6 goroutines dispensing 1-5 distinct plugin names; seeded 0-3 ms jitter at the mux hook points. Each end records the token it read; the oracle checks the dial(id)<->accept(id) bijection, byte-exact payloads, no stray bytes, no failure inside the window, dispense name/serial uniqueness. Class = (#ids bucket, max concurrently pending bucket, #distinct (dir,order,gap) shapes, #dispense goroutines)",
		Assumptions: []string{"gaps stay at least 1 s inside the ~5 s pending window", "the plugin side runs in the same process through plugin.TestPluginRPCConn"},
	})
	register(&Prop{
		ID: "C07", Level: "exploration", Race: true, TestName: "TestC07",
		Gen: routeGen("grpc", false), Batch: 8, Children: 4, PerCase: 8 * time.Second, Base: 120 * time.Second,
		Judge: routeJudge("C07"), Finish: routeFinish("C07", "grpcbroker.accept.listening", "grpcbroker.run.recv", "grpcbroker.dial.gotInfo"),
		Rule:        "a case = one round on a fresh in-process gRPC connection pair without multiplexing: k in 1..32 distinct ids outstanding concurrently, random direction / order / gap, each accepted id served (AcceptAndServe) by a PingPong service answering '<id>/<nonce>'; the dialler's first call must be answered by exactly its id's server; seeded jitter at the grpcbroker hook points; afterwards control Ping and a re-ping of every brokered connection",
		Assumptions: []string{"gaps stay at least 1 s inside the ~5 s pending window", "in-process pair via plugin.TestPluginGRPCConn (no TLS); TLS / address-translation variants run through real subprocesses in C12/C14"},
	})
	register(&Prop{
		ID: "C08", Level: "exploration", Race: true, TestName: "TestC08",
		Gen: routeGen("grpcmux", true), Batch: 2, Children: 8, PerCase: 40 * time.Second, Base: 120 * time.Second,
		Judge: routeJudge("C08"), Finish: routeFinish("C08", "grpcbroker.accept.mux.registering", "grpcmux.server.accepted", "grpcmux.client.unblocked", "grpcbroker.knock.sent"),
		Rule:        "a case = a sequence of 20-50 (quick) / 20-200 (thorough) brokered connections on one multiplexed in-process gRPC pair, established strictly one at a time (documented contract), each with random direction, accept-first or dial-first and gap 0-200 ms; after every establishment the control connection is pinged, the main service is called and every earlier brokered connection is re-pinged (must still be answered by its own id's server); seeded 0-3 ms jitter at the hook points between knock listener start, listener registration, knock acceptance and stream acceptance; plus, in host children of their own, sequences in which a listener is closed at the very moment the stream of a dial for it arrives at the accepting side's muxer (that dial is not judged; the pairs before and after it are)",
		Assumptions: []string{"concurrent establishment is out of scope (documented as unsupported) and never generated", "the main gRPC server does not implement PingPong, so a stream routed to the main listener shows as Unimplemented"},
	})
}
