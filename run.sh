#!/bin/sh
# usage: ./run.sh <property id> <quick|thorough> [extra vcheck flags]
cd "$(dirname "$0")" || exit 2
export GOFLAGS=-mod=mod GOPROXY=off
unset GOSUMDB GOTOOLCHAIN
mkdir -p bin
go build -o bin/vcheck ./cmd/vcheck || { echo "INCONCLUSIVE: vcheck build failed"; exit 2; }
id="$1"; tier="$2"; shift 2
exec bin/vcheck -p "$id" -tier "$tier" "$@"
