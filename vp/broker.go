package vp

import (
	"context"
	"crypto/tls"
	"encoding/binary"
	"fmt"
	"io"
	"net"
	"strconv"
	"strings"
	"sync"
	"time"

	plugin "github.com/hashicorp/go-plugin"
	grpctest "github.com/hashicorp/go-plugin/test/grpc"
	"google.golang.org/grpc"
	"google.golang.org/grpc/backoff"
	"google.golang.org/grpc/credentials"
	"google.golang.org/grpc/credentials/insecure"
	"google.golang.org/grpc/peer"
)

// Payload is the deterministic byte stream for a nonce: every byte value
// occurs, and it differs between nonces, so truncation, reordering and
// crossing are all visible to the receiver.
func Payload(nonce string, n int) []byte {
	var x uint64 = 0x9e3779b97f4a7c15
	for _, c := range []byte(nonce) {
		x = (x ^ uint64(c)) * 0x100000001b3
	}
	out := make([]byte, n)
	for i := range out {
		x ^= x << 13
		x ^= x >> 7
		x ^= x << 17
		out[i] = byte(x >> 24)
	}
	return out
}

// Xchg is what one end of a MuxBroker exchange observed.
type Xchg struct {
	PeerID    uint32 `json:"peerId"`
	PeerNonce string `json:"peerNonce"`
	PeerLen   int    `json:"peerLen"`
	PayloadOK bool   `json:"payloadOk"`
	Extra     int    `json:"extra"` // bytes received beyond the peer's frame (must be 0)
}

func writeFrame(w io.Writer, id uint32, nonce string, n int) error {
	hdr := make([]byte, 4+2+len(nonce)+4)
	binary.LittleEndian.PutUint32(hdr, id)
	binary.LittleEndian.PutUint16(hdr[4:], uint16(len(nonce)))
	copy(hdr[6:], nonce)
	binary.LittleEndian.PutUint32(hdr[6+len(nonce):], uint32(n))
	if _, err := w.Write(hdr); err != nil {
		return err
	}
	p := Payload(nonce, n)
	// write in uneven pieces so ordering bugs show
	for len(p) > 0 {
		k := 1 + len(p)/3
		if _, err := w.Write(p[:k]); err != nil {
			return err
		}
		p = p[k:]
	}
	return nil
}

func readFrame(r io.Reader) (x Xchg, err error) {
	var h [6]byte
	if _, err = io.ReadFull(r, h[:]); err != nil {
		return x, fmt.Errorf("read header: %w", err)
	}
	x.PeerID = binary.LittleEndian.Uint32(h[:])
	nl := int(binary.LittleEndian.Uint16(h[4:]))
	nb := make([]byte, nl+4)
	if _, err = io.ReadFull(r, nb); err != nil {
		return x, fmt.Errorf("read nonce: %w", err)
	}
	x.PeerNonce = string(nb[:nl])
	x.PeerLen = int(binary.LittleEndian.Uint32(nb[nl:]))
	if x.PeerLen > 1<<26 {
		return x, fmt.Errorf("absurd length %d", x.PeerLen)
	}
	p := make([]byte, x.PeerLen)
	if _, err = io.ReadFull(r, p); err != nil {
		return x, fmt.Errorf("read payload: %w", err)
	}
	want := Payload(x.PeerNonce, x.PeerLen)
	x.PayloadOK = string(p) == string(want)
	return x, nil
}

const xchgDeadline = 60 * time.Second // watchdog only; never a verdict

// MuxAccept accepts id, reads the dialler's frame, answers with its own, then
// waits for the dialler to close (counting stray bytes).
func MuxAccept(b *plugin.MuxBroker, id uint32, nonce string, n int) (Xchg, error) {
	conn, err := b.Accept(id)
	if err != nil {
		return Xchg{}, fmt.Errorf("accept: %w", err)
	}
	defer conn.Close()
	conn.SetDeadline(time.Now().Add(xchgDeadline))
	x, err := readFrame(conn)
	if err != nil {
		return x, err
	}
	if err := writeFrame(conn, id, nonce, n); err != nil {
		return x, fmt.Errorf("write: %w", err)
	}
	extra, _ := io.Copy(io.Discard, conn)
	x.Extra = int(extra)
	return x, nil
}

// MuxDial dials id, sends its frame, reads the acceptor's answer.
func MuxDial(b *plugin.MuxBroker, id uint32, nonce string, n int) (Xchg, error) {
	conn, err := b.Dial(id)
	if err != nil {
		return Xchg{}, fmt.Errorf("dial: %w", err)
	}
	defer conn.Close()
	conn.SetDeadline(time.Now().Add(xchgDeadline))
	if err := writeFrame(conn, id, nonce, n); err != nil {
		return Xchg{}, fmt.Errorf("write: %w", err)
	}
	x, err := readFrame(conn)
	if err != nil {
		return x, err
	}
	return x, nil
}

// ---- gRPC broker ----

type pingPong struct {
	grpctest.UnimplementedPingPongServer
	msg string
}

func (p *pingPong) Ping(context.Context, *grpctest.PingRequest) (*grpctest.PongResponse, error) {
	return &grpctest.PongResponse{Msg: p.msg}, nil
}

// AcceptHandle lets the harness stop a brokered server it started.
type AcceptHandle struct {
	mu      sync.Mutex
	srv     *grpc.Server
	stopped bool
	Done    chan struct{} // closed when AcceptAndServe returned
}

func (h *AcceptHandle) Stop() {
	h.mu.Lock()
	h.stopped = true
	s := h.srv
	h.mu.Unlock()
	if s != nil {
		s.Stop()
	}
}

// GRPCAcceptServe runs AcceptAndServe(id) in a goroutine with a PingPong
// service answering "<id>/<nonce>". slow delays the server factory.
func GRPCAcceptServe(b *plugin.GRPCBroker, id uint32, nonce string, slow ...time.Duration) *AcceptHandle {
	h := &AcceptHandle{Done: make(chan struct{})}
	go func() {
		defer close(h.Done)
		b.AcceptAndServe(id, func(opts []grpc.ServerOption) *grpc.Server {
			// a server factory that takes a while (loading certificates, ...): the
			// listener is registered but nobody accepts on it yet
			for _, d := range slow {
				time.Sleep(d)
			}
			s := grpc.NewServer(opts...)
			grpctest.RegisterPingPongServer(s, &pingPong{msg: pingMsg(id, nonce)})
			h.mu.Lock()
			h.srv = s
			stopped := h.stopped
			h.mu.Unlock()
			if stopped {
				go s.Stop()
			}
			return s
		})
	}()
	return h
}

// RawHandle is a brokered listener obtained with a plain Accept and served by a grpc.Server of the
// harness. The listener is closed exactly once, whoever asks first (CloseListener or the server).
type RawHandle struct {
	Err  error
	ln   net.Listener
	srv  *grpc.Server
	once sync.Once
}

type onceListener struct {
	net.Listener
	h *RawHandle
}

func (l *onceListener) Close() error { l.h.CloseListener(); return nil }

// CloseListener closes the brokered listener (once).
func (h *RawHandle) CloseListener() {
	h.once.Do(func() {
		if h.ln != nil {
			h.ln.Close()
		}
	})
}

// CloseListenerAgain closes the brokered listener once more, whatever happened before (closing a
// net.Listener twice is ordinary: grpc.Server.Serve closes it on return, and its owner defers a Close).
func (h *RawHandle) CloseListenerAgain() {
	if h.ln != nil {
		h.ln.Close()
	}
}

// StopServer stops the server that was serving the listener.
func (h *RawHandle) StopServer() {
	if h.srv != nil {
		h.srv.Stop()
	}
}

// GRPCAcceptRaw accepts id and serves PingPong answering "<id>/<nonce>" on the listener.
func GRPCAcceptRaw(b *plugin.GRPCBroker, id uint32, nonce string) *RawHandle {
	h := &RawHandle{}
	ln, err := b.Accept(id)
	if err != nil {
		h.Err = err
		return h
	}
	h.ln = ln
	h.srv = grpc.NewServer()
	grpctest.RegisterPingPongServer(h.srv, &pingPong{msg: pingMsg(id, nonce)})
	go h.srv.Serve(&onceListener{Listener: ln, h: h})
	return h
}

// pingMsg is what the PingPong server accepted on id answers: "<id>/<nonce>", or, for a nonce of the form
// "big:<n>", "<id>/" followed by n filler bytes (a large response on a brokered connection).
func pingMsg(id uint32, nonce string) string {
	if strings.HasPrefix(nonce, "big:") {
		n, _ := strconv.Atoi(strings.TrimPrefix(nonce, "big:"))
		return fmt.Sprintf("%d/", id) + strings.Repeat("B", n)
	}
	return fmt.Sprintf("%d/%s", id, nonce)
}

// DialRes is the outcome of dialling an id and making the first call.
type DialRes struct {
	DialErr string `json:"dialErr,omitempty"`
	PingErr string `json:"pingErr,omitempty"`
	Msg     string `json:"msg,omitempty"`
	DialMs  int64  `json:"dialMs"`
	PingMs  int64  `json:"pingMs"`
	Auth    string `json:"auth,omitempty"` // tls | none: how the connection is secured (dialling side's view)

	conn *grpc.ClientConn
}

func (d *DialRes) Conn() *grpc.ClientConn { return d.conn }

// GRPCDialPing dials id and makes the first PingPong call. timeout bounds the
// RPC only as a watchdog (0 = 60 s).
func GRPCDialPing(b *plugin.GRPCBroker, id uint32, timeout time.Duration, closeAfter bool) *DialRes {
	if timeout == 0 {
		timeout = 60 * time.Second
	}
	r := &DialRes{}
	t0 := time.Now()
	conn, err := b.Dial(id)
	r.DialMs = time.Since(t0).Milliseconds()
	if err != nil {
		r.DialErr = err.Error()
		return r
	}
	r.conn = conn
	msg, auth, err := PingConnAuth(conn, timeout)
	r.PingMs = time.Since(t0).Milliseconds() - r.DialMs
	if err != nil {
		r.PingErr = err.Error()
	}
	r.Msg, r.Auth = msg, auth
	if closeAfter {
		conn.Close()
		r.conn = nil
	}
	return r
}

// GRPCDialPingWait is GRPCDialPing with a first call that waits for the connection to come up (gRPC
// keeps reconnecting, knocking again each time) instead of failing with the first connection attempt.
func GRPCDialPingWait(b *plugin.GRPCBroker, id uint32, timeout time.Duration) *DialRes {
	r := &DialRes{}
	t0 := time.Now()
	conn, err := b.Dial(id)
	r.DialMs = time.Since(t0).Milliseconds()
	if err != nil {
		r.DialErr = err.Error()
		return r
	}
	r.conn = conn
	msg, err := PingConn(conn, timeout, grpc.WaitForReady(true))
	r.PingMs = time.Since(t0).Milliseconds() - r.DialMs
	if err != nil {
		r.PingErr = err.Error()
	}
	r.Msg = msg
	return r
}

// GRPCDialPingShort is GRPCDialPingWait through DialWithOptions with a short per-attempt connect timeout.
func GRPCDialPingShort(b *plugin.GRPCBroker, id uint32, timeout time.Duration) *DialRes {
	r := &DialRes{}
	t0 := time.Now()
	conn, err := b.DialWithOptions(id, grpc.WithConnectParams(grpc.ConnectParams{
		MinConnectTimeout: 300 * time.Millisecond,
		Backoff:           backoff.Config{BaseDelay: 200 * time.Millisecond, Multiplier: 1, MaxDelay: 200 * time.Millisecond},
	}))
	r.DialMs = time.Since(t0).Milliseconds()
	if err != nil {
		r.DialErr = err.Error()
		return r
	}
	r.conn = conn
	msg, err := PingConn(conn, timeout, grpc.WaitForReady(true))
	r.PingMs = time.Since(t0).Milliseconds() - r.DialMs
	if err != nil {
		r.PingErr = err.Error()
	}
	r.Msg = msg
	if err == nil {
		// keep the connection busy with back-to-back calls well past its (short) connect budget: an established
		// connection stays attached to its server for as long as it is used
		t1 := time.Now()
		for time.Since(t1) < 1200*time.Millisecond {
			m2, err := PingConn(conn, 20*time.Second)
			if err != nil {
				r.PingErr = fmt.Sprintf("the established connection broke %d ms after its first answer, while in use: %v", time.Since(t1).Milliseconds(), err)
				break
			}
			if m2 != msg {
				r.PingErr = fmt.Sprintf("the established connection changed servers while in use: first answered by %q, then by %q", msg, m2)
				break
			}
		}
	}
	return r
}

func PingConn(conn *grpc.ClientConn, timeout time.Duration, opts ...grpc.CallOption) (string, error) {
	msg, _, err := PingConnAuth(conn, timeout, opts...)
	return msg, err
}

// PingConnAuth also reports how the connection the call travelled on is secured, as the dialling side sees
// it: "tls" or "none".
func PingConnAuth(conn *grpc.ClientConn, timeout time.Duration, opts ...grpc.CallOption) (string, string, error) {
	ctx, cancel := context.WithTimeout(context.Background(), timeout)
	defer cancel()
	var pr peer.Peer
	resp, err := grpctest.NewPingPongClient(conn).Ping(ctx, &grpctest.PingRequest{}, append(opts, grpc.Peer(&pr))...)
	if err != nil {
		return "", "", err
	}
	auth := "none"
	if _, ok := pr.AuthInfo.(credentials.TLSInfo); ok {
		auth = "tls"
	}
	return resp.Msg, auth, nil
}

var _ net.Conn // keep import when trimmed

// IntruderCredNames: credential classes a peer without the launch's keys can present.
var IntruderCredNames = []string{"plaintext", "tls-nocert", "tls-selfsigned-other-name", "tls-same-name-other-key", "tls-same-name-verifying-own-ca"}

// IntruderCreds builds the transport credentials of one class (fresh keys each time).
func IntruderCreds(name string) credentials.TransportCredentials {
	mk := func(certs ...tls.Certificate) credentials.TransportCredentials {
		return credentials.NewTLS(&tls.Config{InsecureSkipVerify: true, Certificates: certs, ServerName: "localhost", MinVersion: tls.VersionTLS12})
	}
	switch name {
	case "tls-nocert":
		return mk()
	case "tls-selfsigned-other-name":
		c, k, _ := GenCertNamed("intruder", "Evil Corp")
		return mk(KeyPair(c, k))
	case "tls-same-name-other-key":
		c, k, _ := GenCert()
		return mk(KeyPair(c, k))
	case "tls-same-name-verifying-own-ca":
		c, k, _ := GenCert()
		return credentials.NewTLS(&tls.Config{RootCAs: PoolOf(c), Certificates: []tls.Certificate{KeyPair(c, k)}, ServerName: "localhost"})
	}
	return insecure.NewCredentials()
}

// GRPCDialAs dials a brokered id through the broker's own DialWithOptions, but with the transport
// credentials of an intruder class in place of the broker's (a later dial option overrides the
// broker's): the connection travels the broker's regular path (the multiplexed session, the knock)
// and only the TLS identity differs. Reports whether a PingPong call was answered.
func GRPCDialAs(b *plugin.GRPCBroker, id uint32, cred string, timeout time.Duration) (bool, string) {
	conn, err := b.DialWithOptions(id, grpc.WithTransportCredentials(IntruderCreds(cred)))
	if err != nil {
		return false, "dial: " + err.Error()
	}
	defer conn.Close()
	if _, err := PingConn(conn, timeout); err != nil {
		return false, err.Error()
	}
	return true, ""
}

// MuxDialOneWay dials id, writes one frame and closes its end at once (a sender that is done).
func MuxDialOneWay(b *plugin.MuxBroker, id uint32, nonce string, n int) error {
	conn, err := b.Dial(id)
	if err != nil {
		return fmt.Errorf("dial: %w", err)
	}
	conn.SetDeadline(time.Now().Add(xchgDeadline))
	if err := writeFrame(conn, id, nonce, n); err != nil {
		conn.Close()
		return fmt.Errorf("write: %w", err)
	}
	return conn.Close()
}

// MuxAcceptLate accepts id and only starts reading after delay (a slow consumer): it must still get the
// complete frame followed by EOF.
func MuxAcceptLate(b *plugin.MuxBroker, id uint32, delay time.Duration) (Xchg, error) {
	conn, err := b.Accept(id)
	if err != nil {
		return Xchg{}, fmt.Errorf("accept: %w", err)
	}
	defer conn.Close()
	time.Sleep(delay)
	conn.SetDeadline(time.Now().Add(xchgDeadline))
	x, err := readFrame(conn)
	if err != nil {
		return x, err
	}
	extra, err := io.Copy(io.Discard, conn)
	x.Extra = int(extra)
	if err != nil {
		return x, fmt.Errorf("after the frame: %w (want EOF)", err)
	}
	return x, nil
}

// GRPCAcceptImpostor announces id through the broker as usual, but what then listens at the announced
// address presents a fresh self-signed certificate instead of this side's (somebody else sitting at a
// brokered address, as far as the dialling side can tell). It answers PingPong with "impostor".
func GRPCAcceptImpostor(b *plugin.GRPCBroker, id uint32) error {
	ln, err := b.Accept(id)
	if err != nil {
		return err
	}
	c, k, _ := GenCert()
	srv := grpc.NewServer(grpc.Creds(credentials.NewTLS(&tls.Config{Certificates: []tls.Certificate{KeyPair(c, k)}, MinVersion: tls.VersionTLS12})))
	grpctest.RegisterPingPongServer(srv, &pingPong{msg: "impostor"})
	go srv.Serve(ln)
	return nil
}

// MuxDialHeld is MuxDial with a pause between the Dial and the first byte written: a connection that has
// been open for a while before it carries its (large) payload.
func MuxDialHeld(b *plugin.MuxBroker, id uint32, nonce string, n int, hold time.Duration) (Xchg, error) {
	conn, err := b.Dial(id)
	if err != nil {
		return Xchg{}, fmt.Errorf("dial: %w", err)
	}
	defer conn.Close()
	time.Sleep(hold)
	conn.SetReadDeadline(time.Now().Add(xchgDeadline))
	if err := writeFrame(conn, id, nonce, n); err != nil {
		return Xchg{}, fmt.Errorf("write: %w", err)
	}
	x, err := readFrame(conn)
	if err != nil {
		return x, err
	}
	return x, nil
}
