package vp

import (
	"context"
	"fmt"
	"io"
	"sync"
	"sync/atomic"
)

// ScriptRunner is an in-process runner.Runner: the "plugin" is a function that
// writes to the stdout/stderr pipes. The pipes are io.Pipes, i.e. unbuffered,
// so a host that stops reading blocks the very next write.
type ScriptRunner struct {
	IDStr  string
	Script func(r *ScriptRunner) // run in a goroutine by Start

	Out, Err   *io.PipeWriter
	outR, errR *io.PipeReader

	done     chan struct{}
	killOnce sync.Once

	Starts, Kills, Waits atomic.Int32
}

var runnerSeq atomic.Int64

func NewScriptRunner(script func(*ScriptRunner)) *ScriptRunner {
	r := &ScriptRunner{Script: script, done: make(chan struct{})}
	r.outR, r.Out = io.Pipe()
	r.errR, r.Err = io.Pipe()
	r.IDStr = fmt.Sprintf("script-%d", runnerSeq.Add(1))
	return r
}

func (r *ScriptRunner) Start(ctx context.Context) error {
	r.Starts.Add(1)
	if r.Script != nil {
		go r.Script(r)
	}
	return nil
}

// Exit makes the scripted process "die": pipes reach EOF, Wait returns.
func (r *ScriptRunner) Exit() {
	r.killOnce.Do(func() {
		close(r.done)
		r.Out.Close()
		r.Err.Close()
	})
}

func (r *ScriptRunner) Done() <-chan struct{} { return r.done }
func (r *ScriptRunner) Dead() bool {
	select {
	case <-r.done:
		return true
	default:
		return false
	}
}

func (r *ScriptRunner) Wait(ctx context.Context) error { r.Waits.Add(1); <-r.done; return nil }
func (r *ScriptRunner) Kill(ctx context.Context) error { r.Kills.Add(1); r.Exit(); return nil }
func (r *ScriptRunner) Stdout() io.ReadCloser          { return r.outR }
func (r *ScriptRunner) Stderr() io.ReadCloser          { return r.errR }
func (r *ScriptRunner) Name() string                   { return "scripted-plugin" }
func (r *ScriptRunner) ID() string                     { return r.IDStr }
func (r *ScriptRunner) Diagnose(context.Context) string { return "" }
func (r *ScriptRunner) PluginToHost(n, a string) (string, string, error) {
	return n, a, nil
}
func (r *ScriptRunner) HostToPlugin(n, a string) (string, string, error) {
	return n, a, nil
}
