package vp

import (
	"context"
	"fmt"
	"io"
	"net"
	"os/exec"
	"strings"
	"sync"
	"sync/atomic"
	"time"
)

// ScriptRunner is an in-process runner.Runner: the "plugin" is a function that
// writes to the stdout/stderr pipes. The pipes are io.Pipes, i.e. unbuffered,
// so a host that stops reading blocks the very next write.
type ScriptRunner struct {
	IDStr  string
	Script func(r *ScriptRunner) // run in a goroutine by Start

	Out, Err   *io.PipeWriter
	outR, errR *io.PipeReader

	done     chan struct{}
	killOnce sync.Once

	Starts, Kills, Waits atomic.Int32
}

var runnerSeq atomic.Int64

func NewScriptRunner(script func(*ScriptRunner)) *ScriptRunner {
	r := &ScriptRunner{Script: script, done: make(chan struct{})}
	r.outR, r.Out = io.Pipe()
	r.errR, r.Err = io.Pipe()
	r.IDStr = fmt.Sprintf("script-%d", runnerSeq.Add(1))
	return r
}

func (r *ScriptRunner) Start(ctx context.Context) error {
	r.Starts.Add(1)
	if r.Script != nil {
		go r.Script(r)
	}
	return nil
}

// Exit makes the scripted process "die": pipes reach EOF, Wait returns.
func (r *ScriptRunner) Exit() {
	r.killOnce.Do(func() {
		close(r.done)
		r.Out.Close()
		r.Err.Close()
	})
}

func (r *ScriptRunner) Done() <-chan struct{} { return r.done }
func (r *ScriptRunner) Dead() bool {
	select {
	case <-r.done:
		return true
	default:
		return false
	}
}

func (r *ScriptRunner) Wait(ctx context.Context) error  { r.Waits.Add(1); <-r.done; return nil }
func (r *ScriptRunner) Kill(ctx context.Context) error  { r.Kills.Add(1); r.Exit(); return nil }
func (r *ScriptRunner) Stdout() io.ReadCloser           { return r.outR }
func (r *ScriptRunner) Stderr() io.ReadCloser           { return r.errR }
func (r *ScriptRunner) Name() string                    { return "scripted-plugin" }
func (r *ScriptRunner) ID() string                      { return r.IDStr }
func (r *ScriptRunner) Diagnose(context.Context) string { return "" }
func (r *ScriptRunner) PluginToHost(n, a string) (string, string, error) {
	return n, a, nil
}
func (r *ScriptRunner) HostToPlugin(n, a string) (string, string, error) {
	return n, a, nil
}

// ProcRunner is a custom runner.Runner around a real process: what a
// RunnerFunc user (container runtime etc.) would write. It optionally
// translates socket paths between two spellings of the same directory.
type ProcRunner struct {
	Cmd            *exec.Cmd
	stdout, stderr io.ReadCloser
	// HostPrefix/PluginPrefix: a unix address the plugin reports under
	// PluginPrefix is reachable by the host under HostPrefix, and vice versa.
	HostPrefix, PluginPrefix string
	// KillHonoursCtx makes Kill return ctx.Err() without killing when its context is done, after waiting
	// KillGrace for it.
	KillHonoursCtx bool
	KillGrace      time.Duration
	KillAborted    atomic.Int32
	// ForwardTCP: the host reaches the plugin's unix sockets only through TCP forwarders this runner
	// opens (a runner for a sandbox or another machine): PluginToHost turns ("unix", path) into
	// ("tcp", 127.0.0.1:port) -- the network KIND changes, not only the address.
	// StdoutErr: Stdout() hands out a reader that fails with this error (the process's real stdout is
	// drained by the runner itself so the plugin does not block)
	StdoutErr  error
	ForwardTCP bool
	fwdMu      sync.Mutex
	fwd        map[string]net.Listener

	Starts, Kills atomic.Int32
	// translation calls go-plugin made (the runner is harness code: counting
	// them observes go-plugin at its AddrTranslator boundary)
	P2HCalls, H2PCalls atomic.Int32
	waitOnce           sync.Once
	waitErr            error
}

// NewProcRunner builds the runner from the cmd spec go-plugin hands to
// RunnerFunc (its Env and Stdin are honoured) and the real binary to run.
func NewProcRunner(spec *exec.Cmd, path string, args ...string) (*ProcRunner, error) {
	cmd := exec.Command(path, args...)
	cmd.Env = append([]string(nil), spec.Env...)
	cmd.Stdin = spec.Stdin
	so, err := cmd.StdoutPipe()
	if err != nil {
		return nil, err
	}
	se, err := cmd.StderrPipe()
	if err != nil {
		return nil, err
	}
	return &ProcRunner{Cmd: cmd, stdout: so, stderr: se}, nil
}

func (r *ProcRunner) Start(ctx context.Context) error {
	r.Starts.Add(1)
	err := r.Cmd.Start()
	if err == nil && r.StdoutErr != nil {
		go io.Copy(io.Discard, r.stdout)
	}
	return err
}
func (r *ProcRunner) Wait(ctx context.Context) error {
	r.waitOnce.Do(func() {
		r.waitErr = r.Cmd.Wait()
		r.fwdMu.Lock()
		for _, ln := range r.fwd {
			ln.Close()
		}
		r.fwdMu.Unlock()
	})
	return r.waitErr
}
func (r *ProcRunner) Kill(ctx context.Context) error {
	r.Kills.Add(1)
	if r.KillHonoursCtx {
		// a runner that treats its context as runners for remote sandboxes do: a cancelled or expired
		// context aborts the kill, and the (optional) grace period is cut short by it
		if ctx.Err() != nil {
			r.KillAborted.Add(1)
			return ctx.Err()
		}
		select {
		case <-ctx.Done():
			r.KillAborted.Add(1)
			return ctx.Err()
		case <-time.After(r.KillGrace):
		}
	}
	if r.Cmd.Process != nil {
		r.Cmd.Process.Kill()
	}
	return nil
}
func (r *ProcRunner) Stdout() io.ReadCloser {
	if r.StdoutErr != nil {
		// a log stream that broke: every read fails with an error that is not EOF
		return io.NopCloser(errReader{r.StdoutErr})
	}
	return r.stdout
}

type errReader struct{ err error }

func (e errReader) Read([]byte) (int, error) { return 0, e.err }
func (r *ProcRunner) Stderr() io.ReadCloser  { return r.stderr }
func (r *ProcRunner) Name() string           { return r.Cmd.Path }
func (r *ProcRunner) ID() string {
	if r.Cmd.Process == nil {
		return ""
	}
	return fmt.Sprint(r.Cmd.Process.Pid)
}
func (r *ProcRunner) Diagnose(context.Context) string { return "" }
func (r *ProcRunner) PluginToHost(n, a string) (string, string, error) {
	r.P2HCalls.Add(1)
	if r.ForwardTCP && n == "unix" {
		r.fwdMu.Lock()
		defer r.fwdMu.Unlock()
		if ln, ok := r.fwd[a]; ok {
			return "tcp", ln.Addr().String(), nil
		}
		ln, err := net.Listen("tcp", "127.0.0.1:0")
		if err != nil {
			return "", "", err
		}
		if r.fwd == nil {
			r.fwd = map[string]net.Listener{}
		}
		r.fwd[a] = ln
		go func() {
			for {
				c, err := ln.Accept()
				if err != nil {
					return
				}
				go func() {
					u, err := net.Dial("unix", a)
					if err != nil {
						c.Close()
						return
					}
					go func() { io.Copy(u, c); u.Close() }()
					io.Copy(c, u)
					c.Close()
				}()
			}
		}()
		return "tcp", ln.Addr().String(), nil
	}
	if n == "unix" && r.PluginPrefix != "" && strings.HasPrefix(a, r.PluginPrefix) {
		return n, r.HostPrefix + a[len(r.PluginPrefix):], nil
	}
	return n, a, nil
}
func (r *ProcRunner) HostToPlugin(n, a string) (string, string, error) {
	r.H2PCalls.Add(1)
	if n == "unix" && r.HostPrefix != "" && strings.HasPrefix(a, r.HostPrefix) {
		return n, r.PluginPrefix + a[len(r.HostPrefix):], nil
	}
	return n, a, nil
}
