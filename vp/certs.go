package vp

import (
	"crypto/ecdsa"
	"crypto/elliptic"
	"crypto/rand"
	"crypto/tls"
	"crypto/x509"
	"crypto/x509/pkix"
	"encoding/pem"
	"math/big"
	"net"
	"time"
)

// GenCert makes a self-signed CA certificate with the same subject / SAN that
// go-plugin's AutoMTLS certificates carry (CN=localhost, O=HashiCorp), but its
// own fresh key.
func GenCert() (certPEM, keyPEM []byte, der []byte) {
	key, err := ecdsa.GenerateKey(elliptic.P256(), rand.Reader)
	if err != nil {
		panic(err)
	}
	sn, _ := rand.Int(rand.Reader, new(big.Int).Lsh(big.NewInt(1), 120))
	tmpl := &x509.Certificate{
		Subject:               pkix.Name{CommonName: "localhost", Organization: []string{"HashiCorp"}},
		DNSNames:              []string{"localhost"},
		ExtKeyUsage:           []x509.ExtKeyUsage{x509.ExtKeyUsageClientAuth, x509.ExtKeyUsageServerAuth},
		KeyUsage:              x509.KeyUsageDigitalSignature | x509.KeyUsageKeyEncipherment | x509.KeyUsageKeyAgreement | x509.KeyUsageCertSign,
		BasicConstraintsValid: true,
		SerialNumber:          sn,
		NotBefore:             time.Now().Add(-time.Minute),
		NotAfter:              time.Now().Add(24 * time.Hour),
		IsCA:                  true,
	}
	der, err = x509.CreateCertificate(rand.Reader, tmpl, tmpl, key.Public(), key)
	if err != nil {
		panic(err)
	}
	kb, _ := x509.MarshalECPrivateKey(key)
	certPEM = pem.EncodeToMemory(&pem.Block{Type: "CERTIFICATE", Bytes: der})
	keyPEM = pem.EncodeToMemory(&pem.Block{Type: "EC PRIVATE KEY", Bytes: kb})
	return
}

// GenCertIPOnly is GenCert with an IP SAN (127.0.0.1) and no DNS name: the shape of certificate a
// plugin that is not built on go-plugin may announce; it does not verify for the name "localhost".
func GenCertIPOnly() (certPEM, keyPEM []byte, der []byte) {
	key, err := ecdsa.GenerateKey(elliptic.P256(), rand.Reader)
	if err != nil {
		panic(err)
	}
	sn, _ := rand.Int(rand.Reader, new(big.Int).Lsh(big.NewInt(1), 120))
	tmpl := &x509.Certificate{
		Subject:               pkix.Name{CommonName: "plugin", Organization: []string{"HashiCorp"}},
		IPAddresses:           []net.IP{net.IPv4(127, 0, 0, 1)},
		ExtKeyUsage:           []x509.ExtKeyUsage{x509.ExtKeyUsageClientAuth, x509.ExtKeyUsageServerAuth},
		KeyUsage:              x509.KeyUsageDigitalSignature | x509.KeyUsageKeyEncipherment | x509.KeyUsageKeyAgreement | x509.KeyUsageCertSign,
		BasicConstraintsValid: true,
		SerialNumber:          sn,
		NotBefore:             time.Now().Add(-time.Minute),
		NotAfter:              time.Now().Add(24 * time.Hour),
		IsCA:                  true,
	}
	der, err = x509.CreateCertificate(rand.Reader, tmpl, tmpl, key.Public(), key)
	if err != nil {
		panic(err)
	}
	kb, _ := x509.MarshalECPrivateKey(key)
	certPEM = pem.EncodeToMemory(&pem.Block{Type: "CERTIFICATE", Bytes: der})
	keyPEM = pem.EncodeToMemory(&pem.Block{Type: "EC PRIVATE KEY", Bytes: kb})
	return
}

func KeyPair(certPEM, keyPEM []byte) tls.Certificate {
	c, err := tls.X509KeyPair(certPEM, keyPEM)
	if err != nil {
		panic(err)
	}
	return c
}

func PoolOf(certPEM []byte) *x509.CertPool {
	p := x509.NewCertPool()
	p.AppendCertsFromPEM(certPEM)
	return p
}

// GenCertNamed is GenCert with a chosen subject.
func GenCertNamed(cn, org string) (certPEM, keyPEM []byte, der []byte) {
	key, err := ecdsa.GenerateKey(elliptic.P256(), rand.Reader)
	if err != nil {
		panic(err)
	}
	sn, _ := rand.Int(rand.Reader, new(big.Int).Lsh(big.NewInt(1), 120))
	tmpl := &x509.Certificate{
		Subject:               pkix.Name{CommonName: cn, Organization: []string{org}},
		DNSNames:              []string{cn},
		ExtKeyUsage:           []x509.ExtKeyUsage{x509.ExtKeyUsageClientAuth, x509.ExtKeyUsageServerAuth},
		KeyUsage:              x509.KeyUsageDigitalSignature | x509.KeyUsageKeyEncipherment | x509.KeyUsageKeyAgreement | x509.KeyUsageCertSign,
		BasicConstraintsValid: true,
		SerialNumber:          sn,
		NotBefore:             time.Now().Add(-time.Minute),
		NotAfter:              time.Now().Add(24 * time.Hour),
		IsCA:                  true,
	}
	der, err = x509.CreateCertificate(rand.Reader, tmpl, tmpl, key.Public(), key)
	if err != nil {
		panic(err)
	}
	kb, _ := x509.MarshalECPrivateKey(key)
	certPEM = pem.EncodeToMemory(&pem.Block{Type: "CERTIFICATE", Bytes: der})
	keyPEM = pem.EncodeToMemory(&pem.Block{Type: "EC PRIVATE KEY", Bytes: kb})
	return
}
