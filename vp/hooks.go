package vp

import (
	"os"
	"strconv"
	"strings"
	"sync"
	"sync/atomic"
	"syscall"
	"time"

	plugin "github.com/hashicorp/go-plugin"
)

// HookCounts counts hits per point (for evidence: "every hook point the check
// relies on was hit").
type HookCounts struct {
	mu sync.Mutex
	m  map[string]int
}

func (h *HookCounts) Inc(name string) int {
	h.mu.Lock()
	defer h.mu.Unlock()
	if h.m == nil {
		h.m = map[string]int{}
	}
	h.m[name]++
	return h.m[name]
}
func (h *HookCounts) Snapshot() map[string]int {
	h.mu.Lock()
	defer h.mu.Unlock()
	out := map[string]int{}
	for k, v := range h.m {
		out[k] = v
	}
	return out
}

// Jitter returns a handler that counts hits and sleeps a seeded 0..maxUs
// microseconds at the listed points (all points if none listed).
func Jitter(seed int64, maxUs int, counts *HookCounts, points ...string) func(string, uint32) {
	var x atomic.Uint64
	x.Store(uint64(seed)*2654435761 + 1)
	set := map[string]bool{}
	for _, p := range points {
		set[p] = true
	}
	return func(name string, id uint32) {
		if counts != nil {
			counts.Inc(name)
		}
		if len(set) > 0 && !set[name] {
			return
		}
		if maxUs <= 0 {
			return
		}
		v := x.Add(0x9e3779b97f4a7c15)
		v ^= v >> 31
		v *= 0xbf58476d1ce4e5b9
		v ^= v >> 29
		switch v % 4 {
		case 0:
			// no delay: keep the undisturbed schedule in the mix
		case 1:
			// yield only
			time.Sleep(0)
		default:
			time.Sleep(time.Duration((v>>8)%uint64(maxUs)) * time.Microsecond)
		}
	}
}

// InstallEnvHook arms plugin-side hook actions from VERIF_HOOK, a comma list of
// point:action:arg — kill:<nth> (SIGKILL self on the nth hit), exit:<nth>
// (os.Exit(3)), sleep:<ms>. Used by vplugin.
func InstallEnvHook(extra func(name string, id uint32)) {
	spec := os.Getenv("VERIF_HOOK")
	if spec == "" && extra == nil {
		return
	}
	type act struct {
		kind string
		arg  int
	}
	acts := map[string][]act{}
	for _, s := range strings.Split(spec, ",") {
		f := strings.Split(s, ":")
		if len(f) != 3 {
			continue
		}
		n, _ := strconv.Atoi(f[2])
		acts[f[0]] = append(acts[f[0]], act{f[1], n})
	}
	var counts HookCounts
	plugin.VerifSetHook(func(name string, id uint32) {
		if extra != nil {
			extra(name, id)
		}
		as, ok := acts[name]
		if !ok {
			return
		}
		hit := counts.Inc(name)
		for _, a := range as {
			switch a.kind {
			case "kill":
				if hit == a.arg {
					syscall.Kill(os.Getpid(), syscall.SIGKILL)
					select {}
				}
			case "exit":
				if hit == a.arg {
					os.Exit(3)
				}
			case "sleep":
				time.Sleep(time.Duration(a.arg) * time.Millisecond)
			}
		}
	})
}
