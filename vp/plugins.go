package vp

import (
	"context"
	"encoding/json"
	"errors"
	"fmt"
	"net/rpc"
	"sync"
	"time"

	plugin "github.com/hashicorp/go-plugin"
	"google.golang.org/grpc"
	"google.golang.org/protobuf/types/known/wrapperspb"
)

// Cli is what the host gets from Dispense, on either protocol.
type Cli interface {
	// Do sends {"op":op, kv...} and decodes the JSON answer.
	Do(op string, kv ...any) (M, error)
	HostTag() string
}

func encode(op string, kv []any) string {
	m := M{"op": op}
	for i := 0; i+1 < len(kv); i += 2 {
		m[kv[i].(string)] = kv[i+1]
	}
	b, _ := json.Marshal(m)
	return string(b)
}

func decode(s string) (M, error) {
	var m M
	if s == "" {
		return M{}, nil
	}
	if err := json.Unmarshal([]byte(s), &m); err != nil {
		// non-object answers are wrapped
		var v any
		if err2 := json.Unmarshal([]byte(s), &v); err2 == nil {
			return M{"value": v}, nil
		}
		return nil, err
	}
	return m, nil
}

// ---------------------------------------------------------------- net/rpc

// NetP is a net/rpc-only plugin (it does not implement GRPCPlugin).
type NetP struct {
	Name    string
	Label   string // plugin-side tag, e.g. "plugin-set v2 netrpc"
	HostSet string // host-side tag, e.g. "host-set v2"
	Core    *Core  // plugin side only

	// FailAfter > 0: Server() takes this long and then fails (a plugin whose implementation cannot be built)
	FailAfter time.Duration

	// OnServer / OnClient let in-process workloads grab the brokers.
	OnServer func(*plugin.MuxBroker)
	OnClient func(*plugin.MuxBroker)
}

type RPCSrv struct {
	id Ident
	c  *Core
}

func (s *RPCSrv) Do(req string, resp *string) error {
	r, err := s.c.Do(context.Background(), s.id, req)
	*resp = r
	return err
}

func (p *NetP) Server(b *plugin.MuxBroker) (interface{}, error) {
	if p.FailAfter > 0 {
		time.Sleep(p.FailAfter)
		return nil, errors.New("vp: this plugin's implementation cannot be built")
	}
	if p.Core == nil {
		return nil, errors.New("vp: no core on this side")
	}
	p.Core.SetMux(b)
	if p.OnServer != nil {
		p.OnServer(b)
	}
	return &RPCSrv{c: p.Core, id: Ident{Name: p.Name, Label: p.Label, Serial: p.Core.serial.Add(1), Mux: b}}, nil
}

type RPCCli struct {
	Broker *plugin.MuxBroker
	C      *rpc.Client
	tag    string
}

func (p *NetP) Client(b *plugin.MuxBroker, c *rpc.Client) (interface{}, error) {
	if p.OnClient != nil {
		p.OnClient(b)
	}
	return &RPCCli{Broker: b, C: c, tag: p.HostSet}, nil
}

func (c *RPCCli) HostTag() string { return c.tag }
func (c *RPCCli) Do(op string, kv ...any) (M, error) {
	var resp string
	if err := c.C.Call("Plugin.Do", encode(op, kv), &resp); err != nil {
		return nil, err
	}
	return decode(resp)
}

// ---------------------------------------------------------------- gRPC

// VServer is the hand-written service interface (no protoc in the sandbox):
// requests and answers are JSON inside wrapperspb.StringValue.
type VServer interface {
	Do(context.Context, *wrapperspb.StringValue) (*wrapperspb.StringValue, error)
	Stream(*wrapperspb.StringValue, grpc.ServerStream) error
}

func serviceDesc(name string) *grpc.ServiceDesc {
	return &grpc.ServiceDesc{
		ServiceName: "verif." + name,
		HandlerType: (*VServer)(nil),
		Methods: []grpc.MethodDesc{{
			MethodName: "Do",
			Handler: func(srv interface{}, ctx context.Context, dec func(interface{}) error, ic grpc.UnaryServerInterceptor) (interface{}, error) {
				in := new(wrapperspb.StringValue)
				if err := dec(in); err != nil {
					return nil, err
				}
				if ic == nil {
					return srv.(VServer).Do(ctx, in)
				}
				info := &grpc.UnaryServerInfo{Server: srv, FullMethod: "/verif." + name + "/Do"}
				return ic(ctx, in, info, func(ctx context.Context, req interface{}) (interface{}, error) {
					return srv.(VServer).Do(ctx, req.(*wrapperspb.StringValue))
				})
			},
		}},
		Streams: []grpc.StreamDesc{{
			StreamName:    "Stream",
			ServerStreams: true,
			Handler: func(srv interface{}, stream grpc.ServerStream) error {
				in := new(wrapperspb.StringValue)
				if err := stream.RecvMsg(in); err != nil {
					return err
				}
				return srv.(VServer).Stream(in, stream)
			},
		}},
		Metadata: "verif",
	}
}

type grpcSrv struct {
	id Ident
	c  *Core
}

func (s *grpcSrv) Do(ctx context.Context, in *wrapperspb.StringValue) (*wrapperspb.StringValue, error) {
	r, err := s.c.Do(ctx, s.id, in.Value)
	if err != nil {
		return nil, err
	}
	return wrapperspb.String(r), nil
}

// Stream sends n numbered messages gapMs apart; with dieAfter=k the process
// kills itself after the k-th.
func (s *grpcSrv) Stream(in *wrapperspb.StringValue, st grpc.ServerStream) error {
	var a M
	json.Unmarshal([]byte(in.Value), &a)
	n, gap, die := Int(a, "n"), Int(a, "gapMs"), Int(a, "dieAfter")
	for i := 1; i <= n; i++ {
		if err := st.SendMsg(wrapperspb.String(fmt.Sprintf("%d", i))); err != nil {
			return err
		}
		if die > 0 && i == die {
			time.Sleep(20 * time.Millisecond)
			s.c.do(context.Background(), s.id, M{"op": "sigkill"})
		}
		time.Sleep(time.Duration(gap) * time.Millisecond)
	}
	return nil
}

// GrpcP is a gRPC-only plugin.
type GrpcP struct {
	plugin.NetRPCUnsupportedPlugin
	Name    string
	Label   string
	HostSet string
	Core    *Core

	OnServer func(*plugin.GRPCBroker)
	OnClient func(context.Context, *plugin.GRPCBroker)
}

func (p *GrpcP) GRPCServer(b *plugin.GRPCBroker, s *grpc.Server) error {
	if p.Core == nil {
		return errors.New("vp: no core on this side")
	}
	p.Core.SetGRPC(b)
	if p.OnServer != nil {
		p.OnServer(b)
	}
	s.RegisterService(serviceDesc(p.Name), &grpcSrv{c: p.Core, id: Ident{Name: p.Name, Label: p.Label, Serial: p.Core.serial.Add(1)}})
	return nil
}

type GRPCCli struct {
	Ctx    context.Context // the context go-plugin handed to GRPCClient
	Broker *plugin.GRPCBroker
	CC     *grpc.ClientConn
	name   string
	tag    string

	mu      sync.Mutex
	Timeout time.Duration // per-call watchdog (default 60 s)
}

func (p *GrpcP) GRPCClient(ctx context.Context, b *plugin.GRPCBroker, cc *grpc.ClientConn) (interface{}, error) {
	if p.OnClient != nil {
		p.OnClient(ctx, b)
	}
	return &GRPCCli{Ctx: ctx, Broker: b, CC: cc, name: p.Name, tag: p.HostSet}, nil
}

func (c *GRPCCli) HostTag() string { return c.tag }
func (c *GRPCCli) Do(op string, kv ...any) (M, error) {
	return c.DoCtx(context.Background(), op, kv...)
}
func (c *GRPCCli) DoCtx(ctx context.Context, op string, kv ...any) (M, error) {
	out := new(wrapperspb.StringValue)
	err := c.CC.Invoke(ctx, "/verif."+c.name+"/Do", wrapperspb.String(encode(op, kv)), out)
	if err != nil {
		return nil, err
	}
	return decode(out.Value)
}

// StreamN opens the server stream and returns how many messages arrived and
// the terminating error (io.EOF on a clean end).
func (c *GRPCCli) StreamN(ctx context.Context, n, gapMs, dieAfter int) (int, error) {
	desc := &grpc.StreamDesc{StreamName: "Stream", ServerStreams: true}
	st, err := c.CC.NewStream(ctx, desc, "/verif."+c.name+"/Stream")
	if err != nil {
		return 0, err
	}
	if err := st.SendMsg(wrapperspb.String(encode("stream", []any{"n", n, "gapMs", gapMs, "dieAfter", dieAfter}))); err != nil {
		return 0, err
	}
	st.CloseSend()
	got := 0
	for {
		m := new(wrapperspb.StringValue)
		if err := st.RecvMsg(m); err != nil {
			return got, err
		}
		got++
	}
}

// Sets builds plugin sets for one side.
//
//	proto: "netrpc" | "grpc"; names: plugin names in the set.
func Set(proto string, version int, names []string, core *Core) plugin.PluginSet {
	ps := plugin.PluginSet{}
	for _, n := range names {
		label := fmt.Sprintf("plugin-set v%d %s", version, proto)
		host := fmt.Sprintf("host-set v%d %s", version, proto)
		if proto == "grpc" {
			ps[n] = &GrpcP{Name: n, Label: label, HostSet: host, Core: core}
		} else {
			ps[n] = &NetP{Name: n, Label: label, HostSet: host, Core: core}
		}
	}
	return ps
}
