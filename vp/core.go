// Package vp is the harness' plugin implementation, shared by the scripted
// plugin binary (vplugin) and the host workloads (vhost): one generic
// "Do(json) -> json" service spoken over net/rpc and over gRPC, plus helpers
// for broker exchanges, a scripted in-process runner and hook handlers.
package vp

import (
	"context"
	"crypto/rand"
	"encoding/hex"
	"encoding/json"
	"errors"
	"fmt"
	"os"
	"strings"
	"sync"
	"sync/atomic"
	"syscall"
	"time"

	plugin "github.com/hashicorp/go-plugin"
	"google.golang.org/grpc"
)

// M is a decoded JSON object.
type M = map[string]any

func RandID() string {
	var b [8]byte
	rand.Read(b[:])
	return hex.EncodeToString(b[:])
}

// Core is the plugin-side state behind every dispensed implementation.
type Core struct {
	Instance string // minted once per plugin process / in-process server

	mu     sync.Mutex
	kv     map[string]string
	mux    *plugin.MuxBroker
	grpc   *plugin.GRPCBroker
	serial atomic.Int64

	// Extra handles ops the generic core does not know (set by vplugin main).
	Extra func(ctx context.Context, op string, a M) (any, error, bool)
}

func NewCore() *Core {
	return &Core{Instance: RandID(), kv: map[string]string{}}
}

func (c *Core) SetMux(b *plugin.MuxBroker) { c.mu.Lock(); c.mux = b; c.mu.Unlock() }
func (c *Core) SetGRPC(b *plugin.GRPCBroker) {
	c.mu.Lock()
	c.grpc = b
	c.mu.Unlock()
}

// Minted is the number of server objects created so far (one per Plugin.Server / GRPCServer call).
func (c *Core) Minted() int64            { return c.serial.Load() }
func (c *Core) Mux() *plugin.MuxBroker   { c.mu.Lock(); defer c.mu.Unlock(); return c.mux }
func (c *Core) GRPC() *plugin.GRPCBroker { c.mu.Lock(); defer c.mu.Unlock(); return c.grpc }

func Str(a M, k string) string {
	if v, ok := a[k].(string); ok {
		return v
	}
	return ""
}
func Int(a M, k string) int {
	switch v := a[k].(type) {
	case float64:
		return int(v)
	case int:
		return v
	case json.Number:
		n, _ := v.Int64()
		return int(n)
	}
	return 0
}
func Bool(a M, k string) bool { b, _ := a[k].(bool); return b }

// ctxKey carries per-dispense identity into Do.
type Ident struct {
	Name   string
	Label  string
	Serial int64
	Mux    *plugin.MuxBroker
}

// Do executes one command. Ident describes the dispensed object it came in on
// (zero for the side channel).
func (c *Core) Do(ctx context.Context, id Ident, req string) (string, error) {
	var a M
	if err := json.Unmarshal([]byte(req), &a); err != nil {
		return "", fmt.Errorf("bad request: %v", err)
	}
	res, err := c.do(ctx, id, a)
	if err != nil {
		return "", err
	}
	b, err := json.Marshal(res)
	return string(b), err
}

func (c *Core) do(ctx context.Context, id Ident, a M) (any, error) {
	op := Str(a, "op")
	switch op {
	case "tag":
		return M{"name": id.Name, "label": id.Label, "serial": id.Serial, "instance": c.Instance, "pid": os.Getpid()}, nil
	case "put":
		c.mu.Lock()
		c.kv[Str(a, "k")] = Str(a, "v")
		c.mu.Unlock()
		return M{"instance": c.Instance}, nil
	case "get":
		c.mu.Lock()
		v, ok := c.kv[Str(a, "k")]
		c.mu.Unlock()
		return M{"v": v, "ok": ok, "instance": c.Instance}, nil
	case "sleep":
		d := time.Duration(Int(a, "ms")) * time.Millisecond
		if Bool(a, "honorCtx") {
			select {
			case <-time.After(d):
			case <-ctx.Done():
				return nil, ctx.Err()
			}
		} else {
			time.Sleep(d)
		}
		return M{}, nil
	case "big":
		return M{"s": strings.Repeat("x", Int(a, "n"))}, nil
	case "fail":
		return nil, errors.New(Str(a, "msg"))
	case "exit":
		os.Exit(Int(a, "code"))
	case "sigkill":
		syscall.Kill(os.Getpid(), syscall.SIGKILL)
		select {}
	case "mux-accept":
		b := id.Mux
		if b == nil {
			b = c.Mux()
		}
		if b == nil {
			return nil, errors.New("no mux broker")
		}
		return MuxAccept(b, uint32(Int(a, "id")), Str(a, "nonce"), Int(a, "len"))
	case "mux-dial":
		b := id.Mux
		if b == nil {
			b = c.Mux()
		}
		if b == nil {
			return nil, errors.New("no mux broker")
		}
		return MuxDial(b, uint32(Int(a, "id")), Str(a, "nonce"), Int(a, "len"))
	case "mux-nextid":
		b := id.Mux
		if b == nil {
			b = c.Mux()
		}
		return M{"id": b.NextId()}, nil
	case "grpc-accept":
		b := c.GRPC()
		if b == nil {
			return nil, errors.New("no grpc broker")
		}
		h := GRPCAcceptServe(b, uint32(Int(a, "id")), Str(a, "nonce"))
		srvHandles.Store(fmt.Sprintf("%s/%d", c.Instance, Int(a, "id")), h)
		return M{}, nil
	case "grpc-accept-raw":
		// a plain Accept whose listener the plugin keeps open until it exits
		b := c.GRPC()
		if b == nil {
			return nil, errors.New("no grpc broker")
		}
		ln, err := b.Accept(uint32(Int(a, "id")))
		if err != nil {
			return nil, err
		}
		srvHandles.Store(fmt.Sprintf("%s/raw/%d", c.Instance, Int(a, "id")), ln)
		return M{"addr": ln.Addr().String()}, nil
	case "grpc-accept-impostor":
		b := c.GRPC()
		if b == nil {
			return nil, errors.New("no grpc broker")
		}
		return M{}, GRPCAcceptImpostor(b, uint32(Int(a, "id")))
	case "grpc-accept-twice":
		// the same id announced twice in a row (both listeners closed again at once); nobody dials it
		b := c.GRPC()
		if b == nil {
			return nil, errors.New("no grpc broker")
		}
		for i := 0; i < 2; i++ {
			ln, err := b.Accept(uint32(Int(a, "id")))
			if err != nil {
				return nil, err
			}
			ln.Close()
		}
		return M{}, nil
	case "grpc-accept-storm":
		// plugin code that keeps announcing brokered servers from a background worker (one every 5 ms, never
		// dialled) for as long as the process lives; vplugin stops the worker shortly after Serve returned
		b := c.GRPC()
		if b == nil {
			return nil, errors.New("no grpc broker")
		}
		if StormStarted.CompareAndSwap(false, true) {
			go func() {
				for !StormStop.Load() {
					go b.AcceptAndServe(b.NextId(), func(opts []grpc.ServerOption) *grpc.Server { return grpc.NewServer(opts...) })
					time.Sleep(5 * time.Millisecond)
				}
			}()
		}
		return M{}, nil
	case "grpc-stop":
		if h, ok := srvHandles.LoadAndDelete(fmt.Sprintf("%s/%d", c.Instance, Int(a, "id"))); ok {
			h.(*AcceptHandle).Stop()
		}
		return M{}, nil
	case "grpc-dial":
		b := c.GRPC()
		if b == nil {
			return nil, errors.New("no grpc broker")
		}
		r := GRPCDialPing(b, uint32(Int(a, "id")), time.Duration(Int(a, "timeoutMs"))*time.Millisecond, !Bool(a, "keep"))
		if Bool(a, "lenOnly") {
			return M{"dialErr": r.DialErr, "pingErr": r.PingErr, "msgLen": len(r.Msg)}, nil
		}
		return r, nil
	case "grpc-dial-as":
		b := c.GRPC()
		if b == nil {
			return nil, errors.New("no grpc broker")
		}
		ans, e := GRPCDialAs(b, uint32(Int(a, "id")), Str(a, "cred"), time.Duration(Int(a, "timeoutMs"))*time.Millisecond)
		return M{"answered": ans, "err": e}, nil
	case "grpc-nextid":
		return M{"id": c.GRPC().NextId()}, nil
	}
	if c.Extra != nil {
		if r, err, ok := c.Extra(ctx, op, a); ok {
			return r, err
		}
	}
	return nil, fmt.Errorf("unknown op %q", op)
}

var srvHandles sync.Map

// StormStarted / StormStop: the accept worker of "grpc-accept-storm".
var StormStarted, StormStop atomic.Bool
