package host

import (
	"context"
	"fmt"
	"regexp"
	"runtime"
	"strings"
	"sync"
	"testing"
	"time"

	plugin "github.com/hashicorp/go-plugin"
	"verif/vp"
)

// pair is one in-process plugin connection with both brokers exposed.
type pair struct {
	kind string // mux | grpc | grpcmux

	hostMux, plugMux   *plugin.MuxBroker
	hostGRPC, plugGRPC *plugin.GRPCBroker

	rpcClient  *plugin.RPCClient
	grpcClient *plugin.GRPCClient
	grpcServer *plugin.GRPCServer
	cli        vp.Cli
	core       *vp.Core
	ctx        context.Context // the context handed to GRPCClient
}

var pairMu sync.Mutex // TestPlugin*Conn helpers are not meant to be raced with each other's t.Fatalf; creation is serialized

func newPair(t *testing.T, kind string, extraNames ...string) (*pair, error) {
	p := &pair{kind: kind, core: vp.NewCore()}
	pairMu.Lock()
	defer pairMu.Unlock()
	switch kind {
	case "mux":
		// "__wrap" among the extra names: the plugin-side broker's id counter is moved to just below the
		// uint32 wrap before the very first id is reserved (so that the ids handed out across the wrap are
		// all fresh: re-using an id that was in use a moment ago is not something 2^32 reservations later
		// could ever do)
		wrap := false
		var names []string
		for _, n := range extraNames {
			if n == "__wrap" {
				wrap = true
			} else {
				names = append(names, n)
			}
		}
		extraNames = names
		var wrapOnce sync.Once
		np := &vp.NetP{Name: "kv", Label: "inproc", Core: p.core,
			OnServer: func(b *plugin.MuxBroker) {
				p.plugMux = b
				if wrap {
					wrapOnce.Do(func() { plugin.VerifSetNextId(b, ^uint32(0)-2) })
				}
			},
			OnClient: func(b *plugin.MuxBroker) { p.hostMux = b }}
		ps := map[string]plugin.Plugin{"kv": np}
		for _, n := range extraNames {
			ps[n] = &vp.NetP{Name: n, Label: "inproc", Core: p.core}
		}
		// a plugin whose Server() takes a while and then fails
		ps["bad"] = &vp.NetP{Name: "bad", Label: "inproc", Core: p.core, FailAfter: 15 * time.Millisecond}
		c, _ := plugin.TestPluginRPCConn(t, ps, nil)
		p.rpcClient = c
		raw, err := c.Dispense("kv")
		if err != nil {
			return nil, err
		}
		p.cli = raw.(vp.Cli)
	default:
		gp := &vp.GrpcP{Name: "kv", Label: "inproc", Core: p.core,
			OnServer: func(b *plugin.GRPCBroker) { p.plugGRPC = b },
			OnClient: func(ctx context.Context, b *plugin.GRPCBroker) { p.hostGRPC = b; p.ctx = ctx }}
		c, s := plugin.TestPluginGRPCConn(t, kind == "grpcmux", map[string]plugin.Plugin{"kv": gp})
		p.grpcClient, p.grpcServer = c, s
		raw, err := c.Dispense("kv")
		if err != nil {
			return nil, err
		}
		p.cli = raw.(vp.Cli)
	}
	if _, err := p.cli.Do("tag"); err != nil {
		return nil, fmt.Errorf("first call: %w", err)
	}
	return p, nil
}

func (p *pair) close() {
	if p.rpcClient != nil {
		p.rpcClient.Close()
	}
	if p.grpcClient != nil {
		p.grpcClient.Close()
	}
}

// matched runs one accept/dial pair on id with the given side dialling and
// reports success (tokens agree both ways).
func (p *pair) matched(id uint32, dialSide string, acceptFirst bool, gap time.Duration) (ok bool, err string) {
	nonceA, nonceD := vp.RandID(), vp.RandID()
	switch p.kind {
	case "mux":
		db, ab := p.hostMux, p.plugMux
		if dialSide == "plugin" {
			db, ab = p.plugMux, p.hostMux
		}
		var ax, dx vp.Xchg
		var aerr, derr error
		var wg sync.WaitGroup
		wg.Add(2)
		acc := func() { defer wg.Done(); ax, aerr = vp.MuxAccept(ab, id, nonceA, 300) }
		dial := func() { defer wg.Done(); dx, derr = vp.MuxDial(db, id, nonceD, 700) }
		if acceptFirst {
			go acc()
			time.Sleep(gap)
			go dial()
		} else {
			go dial()
			time.Sleep(gap)
			go acc()
		}
		wg.Wait()
		if aerr != nil || derr != nil {
			return false, fmt.Sprintf("accept: %v; dial: %v", aerr, derr)
		}
		if ax.PeerID != id || ax.PeerNonce != nonceD || !ax.PayloadOK || dx.PeerID != id || dx.PeerNonce != nonceA || !dx.PayloadOK {
			return false, fmt.Sprintf("token mismatch: acceptor saw %+v, dialler saw %+v (id %d, nonces a=%s d=%s)", ax, dx, id, nonceA, nonceD)
		}
		return true, ""
	default:
		db, ab := p.hostGRPC, p.plugGRPC
		if dialSide == "plugin" {
			db, ab = p.plugGRPC, p.hostGRPC
		}
		var h *vp.AcceptHandle
		var r *vp.DialRes
		if acceptFirst {
			h = vp.GRPCAcceptServe(ab, id, nonceA)
			time.Sleep(gap)
			r = vp.GRPCDialPing(db, id, 0, true)
		} else {
			done := make(chan struct{})
			go func() { defer close(done); r = vp.GRPCDialPing(db, id, 0, true) }()
			time.Sleep(gap)
			h = vp.GRPCAcceptServe(ab, id, nonceA)
			<-done
		}
		defer func() { h.Stop(); <-h.Done }()
		if r.DialErr != "" || r.PingErr != "" {
			return false, fmt.Sprintf("dial: %s ping: %s", r.DialErr, r.PingErr)
		}
		if want := fmt.Sprintf("%d/%s", id, nonceA); r.Msg != want {
			return false, fmt.Sprintf("answered by %q, want %q", r.Msg, want)
		}
		return true, ""
	}
}

var reBrokerFrame = regexp.MustCompile(`go-plugin\.\(\*(MuxBroker|GRPCBroker|gRPCBrokerServer|gRPCBrokerClientImpl)\)`)

// brokerGoroutines counts goroutines with a broker method on their stack.
func brokerGoroutines() (n, total int, sample string) {
	buf := make([]byte, 16<<20)
	buf = buf[:runtime.Stack(buf, true)]
	for _, g := range strings.Split(string(buf), "\n\n") {
		total++
		if reBrokerFrame.MatchString(g) {
			n++
			if sample == "" {
				sample = g
			}
		}
	}
	return
}

// pluginGoroutines counts goroutines whose stack or creator is in go-plugin.
func pluginGoroutines() (n, total int, sample string) {
	buf := make([]byte, 16<<20)
	buf = buf[:runtime.Stack(buf, true)]
	for _, g := range strings.Split(string(buf), "\n\n") {
		total++
		if strings.Contains(g, "github.com/hashicorp/go-plugin.") || strings.Contains(g, "github.com/hashicorp/go-plugin/internal/") {
			n++
			if sample == "" {
				sample = g
			}
		}
	}
	return
}
