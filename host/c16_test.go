package host

import (
	"bufio"
	"bytes"
	"io"
	"net"
	"os"
	"os/exec"
	"path/filepath"
	"regexp"
	"strings"
	"syscall"
	"testing"
	"time"

	"verif/spec"
	"verif/vp"
)

var (
	reBind   = regexp.MustCompile(`bind\(\d+, \{sa_family=AF_UNIX, sun_path="([^"]*)"`)
	reListen = regexp.MustCompile(`listen\(\d+, \d+\)\s+= 0`)
	reWrite1 = regexp.MustCompile(`write\(1, "((?:[^"\\]|\\.)*)"`)
)

// straceWorks reports whether strace can trace a child here.
func straceWorks() bool {
	f := filepath.Join(runDir, "strace-selftest.out")
	err := exec.Command("strace", "-f", "-qq", "-e", "trace=write", "-o", f, "/bin/echo", "x").Run()
	b, _ := os.ReadFile(f)
	return err == nil && bytes.Contains(b, []byte("write(1"))
}

func TestC16(t *testing.T) {
	canTrace := straceWorks()
	if L != nil {
		L.Emit(-1, "", "obs", "strace", canTrace)
	}
	forCases(t, 12, func(c spec.Case, e Em) {
		var p spec.C16Case
		param(c, &p)
		var o spec.C16Obs
		d := caseDir(c.ID, "")
		pcfg := map[string]any{}
		if p.Sets == "versioned" {
			pcfg["versioned"] = map[string]string{"1": p.Proto, "2": p.Proto}
		} else {
			pcfg["legacy"] = map[string]any{"version": 1, "proto": p.Proto}
		}
		cookieVal := spec.CookieValue
		switch p.CfgCookie {
		case "emptyKey":
			pcfg["cookieKey"] = ""
		case "emptyValue":
			pcfg["cookieValue"] = ""
		case "long64":
			// the conventional form: a hex SHA-256
			cookieVal = "d602bf8f470bc67ca7faa0386276bbdd4330efaf76d1a219cb4d6991ca9872b2"
			pcfg["cookieValue"] = cookieVal
		case "long74":
			cookieVal = "d602bf8f470bc67ca7faa0386276bbdd4330efaf76d1a219cb4d6991ca9872b2-extra-tail"
			pcfg["cookieValue"] = cookieVal
		}
		if p.PreTest {
			pcfg["preTestServe"] = true
			pcfg["preTestSync"] = p.PreTestSync
		}
		if p.Chatter {
			pcfg["chatterAfterMs"] = 250
		}
		if p.TLS == "provider" {
			cp, kp, _ := vp.GenCert()
			os.WriteFile(filepath.Join(d, "cert.pem"), cp, 0o600)
			os.WriteFile(filepath.Join(d, "key.pem"), kp, 0o600)
			pcfg["tlsCert"], pcfg["tlsKey"] = filepath.Join(d, "cert.pem"), filepath.Join(d, "key.pem")
		}
		cf := writeCfg(d, pcfg)
		env := []string{"TMPDIR=" + d}
		if p.SockDir != "" {
			sd := filepath.Join(d, p.SockDir)
			os.MkdirAll(sd, 0o755)
			env = append(env, "PLUGIN_UNIX_SOCKET_DIR="+sd)
		}
		switch p.Versions {
		case "":
			env = append(env, "PLUGIN_PROTOCOL_VERSIONS=1,2")
		case "unset":
		case "empty":
			env = append(env, "PLUGIN_PROTOCOL_VERSIONS=")
		default:
			env = append(env, "PLUGIN_PROTOCOL_VERSIONS="+p.Versions)
		}
		switch p.Cookie {
		case "unset":
		case "empty":
			env = append(env, spec.CookieKey+"=")
		case "prefix":
			env = append(env, spec.CookieKey+"="+cookieVal[:len(cookieVal)-1])
		case "prefix64":
			env = append(env, spec.CookieKey+"="+cookieVal[:min(64, len(cookieVal)-1)])
		case "suffix":
			env = append(env, spec.CookieKey+"="+cookieVal+"x")
		case "newline":
			env = append(env, spec.CookieKey+"="+cookieVal+"\n")
		case "othertail":
			env = append(env, spec.CookieKey+"="+cookieVal[:len(cookieVal)-5]+"OTHER")
		case "case":
			env = append(env, spec.CookieKey+"="+strings.ToUpper(cookieVal))
		case "other":
			env = append(env, spec.CookieKey+"=something-else")
		case "padded":
			env = append(env, spec.CookieKey+"= "+cookieVal+" ")
		case "correct":
			env = append(env, spec.CookieKey+"="+cookieVal)
		}
		switch p.MuxEnv {
		case "empty":
			env = append(env, "PLUGIN_MULTIPLEX_GRPC=")
		case "true", "false", "junk":
			env = append(env, "PLUGIN_MULTIPLEX_GRPC="+p.MuxEnv)
		}
		if p.TLS == "clientcert" {
			cp, _, _ := vp.GenCert()
			env = append(env, "PLUGIN_CLIENT_CERT="+string(cp))
		}
		args := []string{pluginBin, cf}
		tracef := filepath.Join(d, "strace.out")
		p.Strace = p.Strace && canTrace
		if p.Strace {
			args = append([]string{"strace", "-f", "-qq", "-s", "96", "-e", "trace=bind,listen,write", "-o", tracef}, args...)
			o.Traced = true
		}
		cmd := exec.Command(args[0], args[1:]...)
		cmd.Env = env
		stdout, _ := cmd.StdoutPipe()
		var stderr bytes.Buffer
		cmd.Stderr = &stderr
		cmd.SysProcAttr = &syscall.SysProcAttr{Setpgid: true}
		if err := cmd.Start(); err != nil {
			o.SetupErr = err.Error()
			e.Ret("h", "serve", o)
			return
		}
		exitCh := make(chan error, 1)
		var outBuf lockedBuf
		lineCh := make(chan string, 1)
		readDone := make(chan struct{})
		go func() {
			defer close(readDone)
			br := bufio.NewReader(stdout)
			line, err := br.ReadString('\n')
			outBuf.Write([]byte(line))
			if err == nil {
				lineCh <- line
			}
			io.Copy(&outBuf, br)
		}()
		go func() { <-readDone; exitCh <- cmd.Wait() }()
		select {
		case line := <-lineCh:
			// serving: connect at once to the announced address
			parts := strings.Split(strings.TrimSpace(line), "|")
			if len(parts) >= 4 && !p.Chatter { // (chatter cases: no host ever connects)
				t0 := time.Now()
				conn, err := net.DialTimeout(parts[2], parts[3], 3*time.Second)
				o.DialMs = time.Since(t0).Milliseconds()
				if err != nil {
					o.DialErr = err.Error()
				} else {
					conn.Close()
				}
			}
			o.Sockets = sockets(d)
			time.Sleep(300 * time.Millisecond) // anything else go-plugin writes to the real stdout would show up
			if p.Chatter {
				time.Sleep(700 * time.Millisecond)
			}
			syscall.Kill(-cmd.Process.Pid, syscall.SIGKILL)
			<-exitCh
		case err := <-exitCh:
			o.Exited = true
			if ee, ok := err.(*exec.ExitError); ok {
				o.ExitCode = ee.ExitCode()
			} else if err != nil {
				o.ExitCode = -1
			}
			o.Sockets = sockets(d)
		case <-time.After(15 * time.Second):
			o.SetupErr = "neither a line nor an exit within 15 s"
			syscall.Kill(-cmd.Process.Pid, syscall.SIGKILL)
			<-exitCh
		}
		o.Stdout = outBuf.Bytes()
		o.StderrHead = trunc(stderr.String(), 200)
		if p.Strace {
			b, _ := os.ReadFile(tracef)
			listenSeen := false
			for _, ln := range strings.Split(string(b), "\n") {
				if m := reBind.FindStringSubmatch(ln); m != nil && !strings.HasSuffix(m[1], "ctl.sock") {
					o.Binds = append(o.Binds, m[1])
				}
				if reListen.MatchString(ln) {
					listenSeen = true
				}
				if m := reWrite1.FindStringSubmatch(ln); m != nil {
					if o.Stdout1Writes == 0 {
						o.ListenBefore = listenSeen
						o.FirstWriteHead = trunc(m[1], 60)
					}
					o.Stdout1Writes++
				}
			}
		}
		e.Ret("h", "serve", o)
	})
}
