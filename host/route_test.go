package host

import (
	"fmt"
	"math/rand"
	"runtime"
	"sync"
	"sync/atomic"
	"testing"
	"time"

	plugin "github.com/hashicorp/go-plugin"
	"google.golang.org/grpc"
	"verif/spec"
	"verif/vp"
)

var routeHooks vp.HookCounts

// runRouteProc is the real-subprocess variant (gRPC broker without
// multiplexing): the plugin side of every accept/dial is performed by the
// scripted plugin on request; the launch may be a custom runner that sees the
// socket directory under another path (address translation) and the
// connection may use AutoMTLS.
func runRouteProc(t *testing.T, c spec.Case, e Em, p spec.RouteCase) {
	wire := "grpc"
	if p.Kind == "mux" {
		wire = "netrpc"
	}
	cfg := baseClientConfig()
	cfg.AutoMTLS = p.TLS == "auto"
	hostSetFor(cfg, wire)
	l := prepare(c.ID, "", pluginCfgFor(wire), cfg, p.Proc)
	defer l.hardKill()
	cp, err := l.Client.Client()
	if err != nil {
		e.Note("pair-error", err.Error())
		return
	}
	raw, err := cp.Dispense("kv")
	if err != nil {
		e.Note("pair-error", err.Error())
		return
	}
	if p.Kind == "mux" {
		runRouteProcMux(c, e, p, l, cp, raw.(*vp.RPCCli))
		return
	}
	cli := raw.(*vp.GRPCCli)
	var inflight, maxPend atomic.Int32
	var mu sync.Mutex
	var handles []*vp.AcceptHandle
	item := func(idx int, it spec.RouteItem) {
		id := it.ID
		n := inflight.Add(1)
		for {
			m := maxPend.Load()
			if n <= m || maxPend.CompareAndSwap(m, n) {
				break
			}
		}
		defer inflight.Add(-1)
		nonceA, nonceD := vp.RandID(), vp.RandID()
		gap := time.Duration(it.GapMs) * time.Millisecond
		var wg sync.WaitGroup
		accept := func() {
			defer wg.Done()
			o := spec.RouteObs{ID: id, Idx: idx, Role: "accept", Side: other(it.Dir), Nonce: nonceA}
			e.Call(fmt.Sprintf("a%d", idx), "accept", o)
			if it.Dir == "host" { // the plugin accepts
				if _, err := cli.Do("grpc-accept", "id", id, "nonce", nonceA); err != nil {
					o.Err = err.Error()
				}
			} else {
				h := vp.GRPCAcceptServe(cli.Broker, id, nonceA, time.Duration(it.SlowMs)*time.Millisecond)
				mu.Lock()
				handles = append(handles, h)
				mu.Unlock()
			}
			e.Ret(fmt.Sprintf("a%d", idx), "accept", o)
		}
		dial := func() {
			defer wg.Done()
			o := spec.RouteObs{ID: id, Idx: idx, Role: "dial", Side: it.Dir, Nonce: nonceD}
			e.Call(fmt.Sprintf("d%d", idx), "dial", o)
			t0 := time.Now()
			if it.Dir == "host" {
				r := vp.GRPCDialPing(cli.Broker, id, 60*time.Second, true)
				o.Msg = r.Msg
				if r.DialErr != "" {
					o.Err = "dial: " + r.DialErr
				} else if r.PingErr != "" {
					o.Err = "first call: " + r.PingErr
				}
			} else {
				m, err := cli.Do("grpc-dial", "id", id, "timeoutMs", 60000)
				if err != nil {
					o.Err = "plugin dial command: " + err.Error()
				} else {
					o.Msg = vp.Str(m, "msg")
					if s := vp.Str(m, "dialErr"); s != "" {
						o.Err = "dial: " + s
					} else if s := vp.Str(m, "pingErr"); s != "" {
						o.Err = "first call: " + s
					}
				}
			}
			o.Ms = time.Since(t0).Milliseconds()
			e.Ret(fmt.Sprintf("d%d", idx), "dial", o)
		}
		wg.Add(2)
		if it.AcceptFirst {
			go accept()
			time.Sleep(gap)
			go dial()
		} else {
			go dial()
			time.Sleep(gap)
			go accept()
		}
		wg.Wait()
	}
	var end spec.RouteEnd
	ok, _, dump := within(150*time.Second, func() {
		var wg sync.WaitGroup
		for i, it := range p.Items {
			wg.Add(1)
			go func(i int, it spec.RouteItem) { defer wg.Done(); item(i, it) }(i, it)
		}
		wg.Wait()
		var h spec.RouteHealth
		h.Idx, h.RepingOK = len(p.Items), true
		h.PingErr = errStr(cp.Ping())
		_, err := cli.Do("tag")
		h.CallErr = errStr(err)
		e.Obs("health", h)
	})
	end.Returned, end.Dump, end.MaxPend = ok, trunc(dump, 6000), int(maxPend.Load())
	end.Hooks = routeHooks.Snapshot()
	if l.Proc != nil {
		end.P2HCalls, end.H2PCalls = int(l.Proc.P2HCalls.Load()), int(l.Proc.H2PCalls.Load())
	}
	mu.Lock()
	for _, h := range handles {
		h.Stop()
	}
	mu.Unlock()
	within(30*time.Second, l.Client.Kill)
	e.Obs("end", end)
}

func runRoute(t *testing.T, c spec.Case, e Em) {
	var p spec.RouteCase
	param(c, &p)
	if p.Proc != "" {
		runRouteProc(t, c, e, p)
		return
	}
	var names []string
	for i := 0; i < p.DispN; i++ {
		names = append(names, fmt.Sprintf("p%d", i))
	}
	pairNames := names
	if p.WrapDispense && p.Kind == "mux" {
		pairNames = append(append([]string(nil), names...), "__wrap")
	}
	pr, err := newPair(t, p.Kind, pairNames...)
	if err != nil {
		e.Note("pair-error", err.Error())
		return
	}
	var inflight, maxPend atomic.Int32
	var connsMu sync.Mutex
	type kept struct {
		id   uint32
		want string
		conn *grpc.ClientConn
		lk   string
	}
	rawHandles := map[string]*vp.RawHandle{}
	var conns []kept
	listenerWant := map[string]string{} // accepting side + id -> answer of that listener's server (guarded by connsMu)
	lastDial := map[string]time.Time{}  // accepting side + id -> when the last dial to that listener got its first answer
	var handles []*vp.AcceptHandle
	brokers := func(dialSide string) (dm, am *plugin.MuxBroker, dg, ag *plugin.GRPCBroker) {
		if dialSide == "host" {
			return pr.hostMux, pr.plugMux, pr.hostGRPC, pr.plugGRPC
		}
		return pr.plugMux, pr.hostMux, pr.plugGRPC, pr.hostGRPC
	}
	item := func(idx int, it spec.RouteItem) {
		id := it.ID
		n := inflight.Add(1)
		for {
			m := maxPend.Load()
			if n <= m || maxPend.CompareAndSwap(m, n) {
				break
			}
		}
		defer inflight.Add(-1)
		dm, am, dg, ag := brokers(it.Dir)
		nonceA, nonceD := vp.RandID(), vp.RandID()
		gap := time.Duration(it.GapMs) * time.Millisecond
		var wg sync.WaitGroup
		accept := func() {
			defer wg.Done()
			o := spec.RouteObs{ID: id, Idx: idx, Role: "accept", Side: other(it.Dir), Nonce: nonceA}
			e.Call(fmt.Sprintf("a%d", idx), "accept", o)
			t0 := time.Now()
			if p.Kind == "mux" {
				if it.HoldAtPickupMs > 0 {
					pickupHold.Store(id, time.Duration(it.HoldAtPickupMs)*time.Millisecond)
				}
				var x vp.Xchg
				var err error
				if it.LateReadMs > 0 {
					x, err = vp.MuxAcceptLate(am, id, time.Duration(it.LateReadMs)*time.Millisecond)
				} else {
					x, err = vp.MuxAccept(am, id, nonceA, it.Len)
				}
				o.PeerID, o.PeerNonce, o.PayloadOK, o.Extra, o.Err = x.PeerID, x.PeerNonce, x.PayloadOK, x.Extra, errStr(err)
			} else if it.Raw || it.Reaccept {
				lk := other(it.Dir) + fmt.Sprint(id)
				var old *vp.RawHandle
				if it.Reaccept {
					connsMu.Lock()
					old = rawHandles[lk]
					// connections to the old listener end with it: they are no longer re-pinged
					var keep []kept
					for _, k := range conns {
						if k.lk != lk {
							keep = append(keep, k)
						} else {
							k.conn.Close()
						}
					}
					conns = keep
					connsMu.Unlock()
					if old != nil {
						old.CloseListener()
					}
				}
				h := vp.GRPCAcceptRaw(ag, id, nonceA)
				o.Err = errStr(h.Err)
				if old != nil {
					if it.DoubleClose {
						old.CloseListenerAgain()
					}
					old.StopServer()
				}
				connsMu.Lock()
				rawHandles[lk] = h
				connsMu.Unlock()
			} else {
				h := vp.GRPCAcceptServe(ag, id, nonceA, time.Duration(it.SlowMs)*time.Millisecond)
				connsMu.Lock()
				handles = append(handles, h)
				connsMu.Unlock()
			}
			o.Ms = time.Since(t0).Milliseconds()
			e.Ret(fmt.Sprintf("a%d", idx), "accept", o)
		}
		dial := func() {
			defer wg.Done()
			o := spec.RouteObs{ID: id, Idx: idx, Role: "dial", Side: it.Dir, Nonce: nonceD}
			e.Call(fmt.Sprintf("d%d", idx), "dial", o)
			t0 := time.Now()
			if p.Kind == "mux" {
				if it.LateReadMs > 0 {
					o.Err = errStr(vp.MuxDialOneWay(dm, id, nonceD, it.Len))
					o.PeerID, o.PeerNonce, o.PayloadOK = id, nonceA, true // (a one-way sender learns nothing about its peer)
				} else if it.DialHoldMs > 0 {
					x, err := vp.MuxDialHeld(dm, id, nonceD, it.Len, time.Duration(it.DialHoldMs)*time.Millisecond)
					o.PeerID, o.PeerNonce, o.PayloadOK, o.Extra, o.Err = x.PeerID, x.PeerNonce, x.PayloadOK, x.Extra, errStr(err)
				} else {
					x, err := vp.MuxDial(dm, id, nonceD, it.Len)
					o.PeerID, o.PeerNonce, o.PayloadOK, o.Extra, o.Err = x.PeerID, x.PeerNonce, x.PayloadOK, x.Extra, errStr(err)
				}
			} else {
				var r *vp.DialRes
				if it.HoldAtGotInfoMs > 0 {
					gotInfoHold.Store(id, time.Duration(it.HoldAtGotInfoMs)*time.Millisecond)
				}
				if it.ShortConnect {
					r = vp.GRPCDialPingShort(dg, id, 40*time.Second)
				} else if it.WaitReady {
					r = vp.GRPCDialPingWait(dg, id, 40*time.Second)
				} else {
					r = vp.GRPCDialPing(dg, id, 60*time.Second, false)
				}
				o.Msg = r.Msg
				if r.DialErr != "" {
					o.Err = "dial: " + r.DialErr
				} else if r.PingErr != "" {
					o.Err = "first call: " + r.PingErr
				}
				if r.Conn() != nil {
					connsMu.Lock()
					lastDial[other(it.Dir)+fmt.Sprint(id)] = time.Now().Add(-time.Duration(r.PingMs) * time.Millisecond)
					want := fmt.Sprintf("%d/%s", id, nonceA)
					if it.Redial {
						want = listenerWant[other(it.Dir)+fmt.Sprint(id)]
					} else {
						listenerWant[other(it.Dir)+fmt.Sprint(id)] = want
					}
					conns = append(conns, kept{id, want, r.Conn(), other(it.Dir) + fmt.Sprint(id)})
					connsMu.Unlock()
				}
			}
			o.Ms = time.Since(t0).Milliseconds()
			e.Ret(fmt.Sprintf("d%d", idx), "dial", o)
		}
		if it.Redial {
			if it.AtExpiry {
				connsMu.Lock()
				last := lastDial[other(it.Dir)+fmt.Sprint(id)]
				connsMu.Unlock()
				if !last.IsZero() {
					time.Sleep(time.Until(last.Add(5*time.Second + time.Duration(it.SkewUs)*time.Microsecond)))
				}
			}
			wg.Add(1)
			go dial()
			wg.Wait()
			return
		}
		if it.ClosedUnderDial && p.Kind == "grpcmux" {
			pid := id + 500000
			h := vp.GRPCAcceptRaw(ag, pid, "closed-under-dial")
			if h.Err == nil {
				point := "grpcmux.server.accepted" // the plugin side's muxer has the stream in hand
				if it.Dir == "plugin" {
					point = "grpcmux.client.unblocked" // the host side's listener has been unblocked by the knock
				}
				var fired atomic.Bool
				closeAtArrival.Store(&arrivalClose{point: point, do: func() {
					fired.Store(true)
					h.CloseListener()
					time.Sleep(50 * time.Millisecond)
				}})
				r := vp.GRPCDialPing(dg, pid, 8*time.Second, true)
				closeAtArrival.Store(nil)
				e.Note("closed-under-dial", fmt.Sprintf("id=%d hook-fired=%v dialErr=%q pingErr=%q", pid, fired.Load(), r.DialErr, r.PingErr))
				h.CloseListener()
				go h.StopServer()
			}
		}
		if it.StaleDial && p.Kind == "grpc" {
			if r := vp.GRPCDialPing(dg, id, 10*time.Second, true); r.DialErr == "" && r.PingErr == "" {
				e.Note("stale-dial-succeeded", fmt.Sprint(id))
			}
		}
		if it.Reaccept {
			// the id is dialled only once it has been accepted again: a dial that overlaps the switch-over may
			// legitimately still reach the listener that is being closed
			wg.Add(1)
			accept()
			wg.Add(1)
			dial()
			return
		}
		if it.ReuseAfterMs > 0 && p.Kind == "mux" {
			t0 := time.Now()
			var w sync.WaitGroup
			var e1, e2 error
			w.Add(2)
			go func() { defer w.Done(); _, e1 = vp.MuxAccept(am, id, vp.RandID(), 10) }()
			go func() { defer w.Done(); _, e2 = vp.MuxDial(dm, id, vp.RandID(), 10) }()
			w.Wait()
			if e1 != nil || e2 != nil {
				e.Note("reuse-first-pair-failed", fmt.Sprintf("id %d: accept err=%v dial err=%v", id, e1, e2))
			}
			time.Sleep(time.Until(t0.Add(time.Duration(it.ReuseAfterMs) * time.Millisecond)))
		}
		if it.CallbackShape && p.Kind == "grpc" {
			cb := vp.GRPCAcceptServe(dg, id, "callback-"+nonceD)
			if r := vp.GRPCDialPing(ag, id, 20*time.Second, true); r.DialErr != "" || r.PingErr != "" {
				e.Note("callback-leg-failed", fmt.Sprintf("id %d: %s %s", id, r.DialErr, r.PingErr))
			}
			wg.Add(2)
			go accept()
			time.Sleep(gap / 2)
			cb.Stop()
			select {
			case <-cb.Done:
			case <-time.After(10 * time.Second):
			}
			time.Sleep(gap / 2)
			go dial()
			wg.Wait()
			return
		}
		if it.LineUp && p.Kind == "mux" {
			flag := &atomic.Bool{}
			lineUpFlags.Store(id, flag)
			defer lineUpFlags.Delete(id)
			wg.Add(2)
			go func() {
				t0 := time.Now()
				for !flag.Load() && time.Since(t0) < 3*time.Second {
					runtime.Gosched()
				}
				accept()
			}()
			go dial()
			wg.Wait()
			return
		}
		wg.Add(2)
		if it.AcceptFirst {
			go accept()
			time.Sleep(gap)
			go dial()
		} else {
			go dial()
			time.Sleep(gap)
			go accept()
		}
		wg.Wait()
	}
	health := func(idx int) {
		var h spec.RouteHealth
		h.Idx = idx
		if pr.grpcClient != nil {
			ok, _, _ := within(30*time.Second, func() { h.PingErr = errStr(pr.grpcClient.Ping()) })
			if !ok {
				h.PingErr = "ping hung"
			}
		}
		ok, _, _ := within(30*time.Second, func() { _, err := pr.cli.Do("tag"); h.CallErr = errStr(err) })
		if !ok {
			h.CallErr = "call hung"
		}
		h.RepingOK = true
		connsMu.Lock()
		ks := append([]kept(nil), conns...)
		connsMu.Unlock()
		if len(ks) > 24 {
			// long sequences: the 12 most recent connections plus 12 seeded earlier ones
			rr := rand.New(rand.NewSource(p.Seed + int64(idx)))
			sel := append([]kept(nil), ks[len(ks)-12:]...)
			for i := 0; i < 12; i++ {
				sel = append(sel, ks[rr.Intn(len(ks)-12)])
			}
			ks = sel
		}
		for _, k := range ks {
			msg, err := vp.PingConn(k.conn, 30*time.Second)
			if err != nil {
				h.Reping = append(h.Reping, fmt.Sprintf("%d:error %v", k.id, err))
				h.RepingOK = false
			} else if msg != k.want {
				h.Reping = append(h.Reping, fmt.Sprintf("%d:answered by %q want %q", k.id, msg, k.want))
				h.RepingOK = false
			}
		}
		e.Obs("health", h)
	}
	var end spec.RouteEnd
	ok, _, dump := within(150*time.Second, func() {
		var wg sync.WaitGroup
		// concurrent dispenses (mux)
		for g := 0; g < p.DispG; g++ {
			wg.Add(1)
			go func(g int) {
				defer wg.Done()
				rr := rand.New(rand.NewSource(p.Seed*1000 + int64(g)))
				for k := 0; k < 4; k++ {
					want := names[rr.Intn(len(names))]
					o := spec.DispObs{G: g, Want: want}
					raw, err := pr.rpcClient.Dispense(want)
					if err != nil {
						o.Err = err.Error()
					} else if m, err := raw.(vp.Cli).Do("tag"); err != nil {
						o.Err = err.Error()
					} else {
						o.Name, o.Serial = vp.Str(m, "name"), int64(vp.Int(m, "serial"))
					}
					e.Obs("dispense", o)
				}
			}(g)
		}
		if p.DispG > 0 && pr.rpcClient != nil {
			// alongside: dispenses of a plugin whose Server() fails after a while (their error is expected)
			var stopBad atomic.Bool
			defer stopBad.Store(true)
			wg.Add(1)
			go func() {
				defer wg.Done()
				for k := 0; k < 12 && !stopBad.Load(); k++ {
					if _, err := pr.rpcClient.Dispense("bad"); err == nil {
						e.Obs("dispense", spec.DispObs{G: -1, Want: "bad", Err: "Dispense of a plugin whose Server() fails returned no error"})
					}
				}
			}()
		}
		if p.Sequential {
			for i, it := range p.Items {
				item(i, it)
				health(i)
			}
		} else {
			for i, it := range p.Items {
				wg.Add(1)
				go func(i int, it spec.RouteItem) { defer wg.Done(); item(i, it) }(i, it)
			}
		}
		wg.Wait()
		if !p.Sequential {
			health(len(p.Items))
		}
	})
	end.Returned, end.Dump = ok, trunc(dump, 6000)
	end.MaxPend = int(maxPend.Load())
	end.Minted = pr.core.Minted()
	end.Hooks = routeHooks.Snapshot()
	connsMu.Lock()
	for _, k := range conns {
		k.conn.Close()
	}
	for _, h := range handles {
		h.Stop()
	}
	for _, h := range rawHandles {
		h.CloseListener()
		h.StopServer()
	}
	connsMu.Unlock()
	within(20*time.Second, pr.close)
	e.Obs("end", end)
}

// pickupHold: ids whose Accept is held at the hook point between taking the parked connection and
// acknowledging it (several cases run in one process: ids of such items are made unique per case).
var pickupHold sync.Map  // uint32 -> time.Duration
var lineUpFlags sync.Map // uint32 -> *atomic.Bool, set when the id arrived at the accepting side's Run
var gotInfoHold sync.Map // the same for Dials held at grpcbroker.dial.gotInfo

// closeAtArrival: armed by a ClosedUnderDial item (its case runs alone in its host child): the next time the
// named hook point is passed, the action runs there once.
type arrivalClose struct {
	point string
	do    func()
}

var closeAtArrival atomic.Pointer[arrivalClose]

func routeTest(t *testing.T, par int, points ...string) {
	jit := vp.Jitter(seedEnv(), 3000, &routeHooks, points...)
	plugin.VerifSetHook(func(name string, id uint32) {
		if ac := closeAtArrival.Load(); ac != nil && ac.point == name && closeAtArrival.CompareAndSwap(ac, nil) {
			routeHooks.Inc(name)
			ac.do()
			return
		}
		if name == "mux.run.gotID" {
			if f, ok := lineUpFlags.Load(id); ok {
				routeHooks.Inc(name)
				f.(*atomic.Bool).Store(true)
				return
			}
		}
		if name == "grpcbroker.dial.gotInfo" {
			if d, ok := gotInfoHold.LoadAndDelete(id); ok {
				routeHooks.Inc(name)
				time.Sleep(d.(time.Duration))
				return
			}
		}
		if name == "mux.accept.gotConn" {
			if d, ok := pickupHold.LoadAndDelete(id); ok {
				routeHooks.Inc(name)
				time.Sleep(d.(time.Duration))
				return
			}
		}
		jit(name, id)
	})
	forCases(t, par, func(c spec.Case, e Em) { runRoute(t, c, e) })
}

func TestC06(t *testing.T) {
	routeTest(t, 6, "mux.run.gotID", "mux.accept.gotConn", "mux.dial.wroteID", "rpcserver.dispense.reserved")
}
func TestC07(t *testing.T) {
	routeTest(t, 6, "grpcbroker.accept.listening", "grpcbroker.run.recv", "grpcbroker.dial.gotInfo")
}
func TestC08(t *testing.T) {
	routeTest(t, 8, "grpcbroker.accept.mux.registering", "grpcmux.server.accepted", "grpcmux.client.unblocked", "grpcbroker.knock.sent", "grpcbroker.run.recv")
}

// runRouteProcMux: MuxBroker pairs between the host and a real net/rpc plugin
// process; the plugin performs its half of each exchange on request.
func runRouteProcMux(c spec.Case, e Em, p spec.RouteCase, l *launched, cp plugin.ClientProtocol, cli *vp.RPCCli) {
	var inflight, maxPend atomic.Int32
	item := func(idx int, it spec.RouteItem) {
		id := it.ID
		n := inflight.Add(1)
		for {
			m := maxPend.Load()
			if n <= m || maxPend.CompareAndSwap(m, n) {
				break
			}
		}
		defer inflight.Add(-1)
		nonceA, nonceD := vp.RandID(), vp.RandID()
		gap := time.Duration(it.GapMs) * time.Millisecond
		fill := func(o *spec.RouteObs, m vp.M, err error) {
			if err != nil {
				o.Err = err.Error()
				return
			}
			o.PeerID, o.PeerNonce, o.PayloadOK, o.Extra = uint32(vp.Int(m, "peerId")), vp.Str(m, "peerNonce"), vp.Bool(m, "payloadOk"), vp.Int(m, "extra")
		}
		var wg sync.WaitGroup
		accept := func() {
			defer wg.Done()
			o := spec.RouteObs{ID: id, Idx: idx, Role: "accept", Side: other(it.Dir), Nonce: nonceA}
			e.Call(fmt.Sprintf("a%d", idx), "accept", o)
			if it.Dir == "host" { // the plugin accepts
				m, err := cli.Do("mux-accept", "id", id, "nonce", nonceA, "len", it.Len)
				fill(&o, m, err)
			} else {
				x, err := vp.MuxAccept(cli.Broker, id, nonceA, it.Len)
				o.PeerID, o.PeerNonce, o.PayloadOK, o.Extra, o.Err = x.PeerID, x.PeerNonce, x.PayloadOK, x.Extra, errStr(err)
			}
			e.Ret(fmt.Sprintf("a%d", idx), "accept", o)
		}
		dial := func() {
			defer wg.Done()
			o := spec.RouteObs{ID: id, Idx: idx, Role: "dial", Side: it.Dir, Nonce: nonceD}
			e.Call(fmt.Sprintf("d%d", idx), "dial", o)
			if it.Dir == "host" {
				x, err := vp.MuxDial(cli.Broker, id, nonceD, it.Len)
				o.PeerID, o.PeerNonce, o.PayloadOK, o.Extra, o.Err = x.PeerID, x.PeerNonce, x.PayloadOK, x.Extra, errStr(err)
			} else {
				m, err := cli.Do("mux-dial", "id", id, "nonce", nonceD, "len", it.Len)
				fill(&o, m, err)
			}
			e.Ret(fmt.Sprintf("d%d", idx), "dial", o)
		}
		wg.Add(2)
		if it.AcceptFirst {
			go accept()
			time.Sleep(gap)
			go dial()
		} else {
			go dial()
			time.Sleep(gap)
			go accept()
		}
		wg.Wait()
	}
	var end spec.RouteEnd
	ok, _, dump := within(150*time.Second, func() {
		var wg sync.WaitGroup
		for g := 0; g < p.DispG; g++ {
			wg.Add(1)
			go func(g int) {
				defer wg.Done()
				for k := 0; k < 4; k++ {
					o := spec.DispObs{G: g, Want: "kv"}
					raw, err := cp.Dispense("kv")
					if err != nil {
						o.Err = err.Error()
					} else if m, err := raw.(vp.Cli).Do("tag"); err != nil {
						o.Err = err.Error()
					} else {
						o.Name, o.Serial = vp.Str(m, "name"), int64(vp.Int(m, "serial"))
					}
					e.Obs("dispense", o)
				}
			}(g)
		}
		for i, it := range p.Items {
			wg.Add(1)
			go func(i int, it spec.RouteItem) { defer wg.Done(); item(i, it) }(i, it)
		}
		wg.Wait()
		var h spec.RouteHealth
		h.Idx, h.RepingOK = len(p.Items), true
		h.PingErr = errStr(cp.Ping())
		_, err := cli.Do("tag")
		h.CallErr = errStr(err)
		e.Obs("health", h)
	})
	end.Returned, end.Dump, end.MaxPend = ok, trunc(dump, 6000), int(maxPend.Load())
	end.Hooks = routeHooks.Snapshot()
	within(30*time.Second, l.Client.Kill)
	e.Obs("end", end)
}
