package host

import (
	"bytes"
	"encoding/base64"
	"encoding/json"
	"fmt"
	"os/exec"
	"strings"
	"sync"
	"sync/atomic"
	"testing"
	"time"

	hclog "github.com/hashicorp/go-hclog"
	plugin "github.com/hashicorp/go-plugin"
	"github.com/hashicorp/go-plugin/runner"
	"verif/spec"
	"verif/vp"
)

type lockedBuf struct {
	mu sync.Mutex
	b  bytes.Buffer
}

func (l *lockedBuf) Write(p []byte) (int, error) {
	l.mu.Lock()
	defer l.mu.Unlock()
	return l.b.Write(p)
}
func (l *lockedBuf) Bytes() []byte {
	l.mu.Lock()
	defer l.mu.Unlock()
	return append([]byte(nil), l.b.Bytes()...)
}

// recSink captures the log records of the plugin's stderr logger exactly.
type recSink struct {
	mu   sync.Mutex
	name string
	recs []spec.C10Rec
}

func (s *recSink) Accept(name string, level hclog.Level, msg string, args ...interface{}) {
	if !strings.HasSuffix(name, s.name) {
		return
	}
	r := spec.C10Rec{Level: level.String(), Msg: []byte(msg)}
	for i := 0; i+1 < len(args); i += 2 {
		vb, err := json.Marshal(args[i+1])
		if err != nil {
			vb = []byte(fmt.Sprintf("%q", fmt.Sprint(args[i+1])))
		}
		r.KV = append(r.KV, fmt.Sprintf("%v=%s", args[i], vb))
	}
	s.mu.Lock()
	s.recs = append(s.recs, r)
	s.mu.Unlock()
}

func chunked(w interface{ Write([]byte) (int, error) }, b []byte, chunk int, n *atomic.Int64) error {
	if chunk <= 0 {
		chunk = len(b)
	}
	for len(b) > 0 {
		k := chunk
		if k > len(b) {
			k = len(b)
		}
		m, err := w.Write(b[:k])
		if n != nil {
			n.Add(int64(m))
		}
		if err != nil {
			return err
		}
		b = b[k:]
	}
	return nil
}

// c10Real runs the case through a real plugin process: the bytes are written
// to the process' real stderr / stdout (kernel pipes, cmdrunner) on request
// over the side channel.
func c10Real(c spec.Case, e Em, p spec.C10Case) {
	sink := &recSink{name: "vplugin-race"}
	il := hclog.NewInterceptLogger(&hclog.LoggerOptions{Output: discard{}, Level: hclog.Trace})
	il.RegisterSink(sink)
	var copyBuf lockedBuf
	cfg := baseClientConfig()
	cfg.Logger = il
	cfg.Stderr = &copyBuf
	cfg.PluginLogBufferSize = p.BufSize
	hostSetFor(cfg, "netrpc")
	l := prepare(c.ID, "", pluginCfgFor("netrpc"), cfg, "cmd")
	defer l.hardKill()
	var o spec.C10Obs
	e.Call("h", "Start", nil)
	_, err := l.Client.Start()
	o.StartErr = errStr(err)
	if err != nil {
		e.Ret("h", "Start", o)
		return
	}
	write := func(stream string, b []byte, rep int, done *bool, n *int64) {
		chunk := p.Chunk
		if chunk <= 0 || chunk < 512 {
			chunk = 4096 // one side-channel round trip per chunk: keep them few
		}
		for r := 0; r < rep; r++ {
			rest := b
			for len(rest) > 0 {
				k := chunk
				if k > len(rest) {
					k = len(rest)
				}
				if _, err := l.ctl("rawwrite", "stream", stream, "b64", base64.StdEncoding.EncodeToString(rest[:k])); err != nil {
					return
				}
				*n += int64(k)
				rest = rest[k:]
			}
		}
		*done = true
	}
	fin := make(chan struct{})
	go func() {
		defer close(fin)
		var dummy int64
		write("e", p.Stderr, 1, &o.ErrWriterDone, &dummy)
		rep := p.StdoutRep
		if rep < 1 {
			rep = 1
		}
		write("o", p.Stdout, rep, &o.OutWriterDone, &o.OutWritten)
	}()
	select {
	case <-fin:
	case <-time.After(30 * time.Second):
		_, _, o.Dump = within(0, func() { select {} })
	}
	// let the host drain what is in the pipes, then look (before Kill adds shutdown chatter)
	want := len(p.Stderr)
	for i := 0; i < 300 && len(copyBuf.Bytes()) < want; i++ {
		time.Sleep(10 * time.Millisecond)
	}
	time.Sleep(50 * time.Millisecond)
	o.Copy = copyBuf.Bytes()
	sink.mu.Lock()
	o.Recs = append([]spec.C10Rec(nil), sink.recs...)
	sink.mu.Unlock()
	ok, _, _ := within(30*time.Second, l.Client.Kill)
	o.KillReturned = ok
	e.Ret("h", "Start", o)
}

func TestC10(t *testing.T) {
	forCases(t, 16, func(c spec.Case, e Em) {
		var p spec.C10Case
		param(c, &p)
		if p.Real {
			c10Real(c, e, p)
			return
		}
		sink := &recSink{name: "scripted-plugin"}
		il := hclog.NewInterceptLogger(&hclog.LoggerOptions{Output: discard{}, Level: hclog.Trace})
		il.RegisterSink(sink)
		var copyBuf lockedBuf
		var errDone, outDone atomic.Bool
		var outN atomic.Int64
		writersDone := make(chan struct{})
		var sr *vp.ScriptRunner
		cfg := &plugin.ClientConfig{
			HandshakeConfig:     plugin.HandshakeConfig{MagicCookieKey: spec.CookieKey, MagicCookieValue: spec.CookieValue},
			Plugins:             vp.Set("netrpc", 1, []string{"kv"}, nil),
			StartTimeout:        10 * time.Second,
			Logger:              il,
			Stderr:              &copyBuf,
			PluginLogBufferSize: p.BufSize,
			UnixSocketConfig:    &plugin.UnixSocketConfig{TempDir: caseDir(c.ID, "")},
			RunnerFunc: func(l hclog.Logger, cmd *exec.Cmd, tmp string) (runner.Runner, error) {
				sr = vp.NewScriptRunner(func(r *vp.ScriptRunner) {
					r.Out.Write([]byte("1|0|tcp|127.0.0.1:1|netrpc\n"))
					var wg sync.WaitGroup
					wg.Add(2)
					go func() {
						defer wg.Done()
						if chunked(r.Err, p.Stderr, p.Chunk, nil) == nil {
							errDone.Store(true)
						}
					}()
					go func() {
						defer wg.Done()
						rep := p.StdoutRep
						if rep < 1 {
							rep = 1
						}
						for i := 0; i < rep; i++ {
							if chunked(r.Out, p.Stdout, p.Chunk, &outN) != nil {
								return
							}
						}
						outDone.Store(true)
					}()
					wg.Wait()
					close(writersDone)
				})
				return sr, nil
			},
		}
		cl := plugin.NewClient(cfg)
		var o spec.C10Obs
		e.Call("h", "Start", nil)
		_, err := cl.Start()
		o.StartErr = errStr(err)
		H := 20 * time.Second
		select {
		case <-writersDone:
		case <-time.After(H):
			_, _, o.Dump = within(0, func() { select {} })
		}
		o.ErrWriterDone, o.OutWriterDone, o.OutWritten = errDone.Load(), outDone.Load(), outN.Load()
		if sr != nil {
			sr.Exit() // the plugin "exits": pipes reach EOF
		}
		ok, _, _ := within(30*time.Second, cl.Kill)
		o.KillReturned = ok
		o.Copy = copyBuf.Bytes()
		sink.mu.Lock()
		o.Recs = append([]spec.C10Rec(nil), sink.recs...)
		sink.mu.Unlock()
		e.Ret("h", "Start", o)
	})
}

type discard struct{}

func (discard) Write(p []byte) (int, error) { return len(p), nil }
