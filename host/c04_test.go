package host

import (
	"encoding/hex"
	"fmt"
	"os"
	"sync"
	"sync/atomic"
	"syscall"
	"testing"
	"time"

	plugin "github.com/hashicorp/go-plugin"
	"verif/spec"
	"verif/vp"
)

type c04Setup struct {
	l       *launched
	killer  *plugin.Client // the client Kill is called on (B for reattach)
	obs     spec.C04Client
	cleanup func()
}

func c04Prepare(caseID int, idx int, behaviour, proto, launch string, managed, preKill, preCleanup bool) *c04Setup {
	s := &c04Setup{}
	s.obs.Behaviour, s.obs.PreKill = behaviour, preKill
	wire := proto
	mux := false
	if proto == "grpcmux" {
		wire, mux = "grpc", true
	}
	pcfg := pluginCfgFor(wire)
	switch behaviour {
	case "exit-200":
		pcfg["exitDelayMs"] = 200
	case "exit-600":
		pcfg["exitDelayMs"] = 600
	case "exit-1000":
		pcfg["exitDelayMs"] = 1000
	case "busy-exit-1200":
		pcfg["exitDelayMs"] = 1200
	case "never-chatty":
		// ignores the shutdown request and keeps logging to its stderr every 250 ms
		pcfg["neverExit"], pcfg["shutdownChatMs"] = true, 250
	case "never", "frozen":
		pcfg["neverExit"] = behaviour == "never"
	case "failed-handshake":
		pcfg = map[string]any{"mode": "raw", "lineHex": "6761726261676520686572650a", "after": "hang"}
	case "nolisten":
		// a valid handshake line, the process stays alive, but nothing listens at the announced address:
		// Start succeeds, Client() fails, and then Kill is called
		line := "1|1|tcp|127.0.0.1:1|" + wire
		if mux {
			line += "||true"
		}
		pcfg = map[string]any{"mode": "raw", "lineHex": hex.EncodeToString([]byte(line + "\n")), "after": "hang"}
	case "start-timeout-partial-line":
		// "1|1|tcp" without a newline, then silence: Start times out with a token still to come
		pcfg = map[string]any{"mode": "raw", "lineHex": "317c317c746370", "after": "hang"}
	}
	cfg := baseClientConfig()
	cfg.GRPCBrokerMultiplex = mux
	if behaviour == "start-timeout-partial-line" {
		cfg.StartTimeout = 500 * time.Millisecond
	}
	cfg.Managed = managed && launch != "reattach"
	hostSetFor(cfg, wire)
	ln := launch
	if launch == "reattach" {
		ln = "cmd"
	}
	l := prepare(caseID, fmt.Sprintf("k%d", idx), pcfg, cfg, ln)
	s.l = l
	s.killer = l.Client
	if preKill {
		within(20*time.Second, l.Client.Kill)
	}
	if preCleanup {
		within(20*time.Second, plugin.CleanupClients)
	}
	_, err := l.Client.Start()
	if behaviour == "failed-handshake" || behaviour == "start-timeout-partial-line" {
		if err == nil {
			s.obs.SetupErr = "handshake unexpectedly succeeded"
		}
		s.obs.Pid = l.pid()
		return s
	}
	if err != nil {
		s.obs.SetupErr = "start: " + err.Error()
		return s
	}
	s.obs.Pid = l.pid()
	if behaviour == "nolisten" {
		if cp, err := l.Client.Client(); err == nil && wire == "netrpc" {
			_ = cp
			s.obs.SetupErr = "Client() unexpectedly succeeded with nothing listening"
		} else if err == nil {
			cp.Ping() // gRPC connects lazily: the first call fails instead
		}
		s.obs.StateBefore = procState(s.obs.Pid)
		return s
	}
	cp, err := l.Client.Client()
	if err != nil {
		s.obs.SetupErr = "client: " + err.Error()
		return s
	}
	raw, err := cp.Dispense("kv")
	if err != nil {
		s.obs.SetupErr = "dispense: " + err.Error()
		return s
	}
	cli := raw.(vp.Cli)
	if _, err := cli.Do("tag"); err != nil {
		s.obs.SetupErr = "call: " + err.Error()
		return s
	}
	if launch == "reattach" {
		rc := l.Client.ReattachConfig()
		bcfg := baseClientConfig()
		hostSetFor(bcfg, wire)
		bcfg.Reattach = rc
		bcfg.Managed = managed
		b := plugin.NewClient(bcfg)
		if _, err := b.Client(); err != nil {
			s.obs.SetupErr = "reattach: " + err.Error()
			return s
		}
		s.killer = b
		s.cleanup = func() { within(60*time.Second, l.Client.Kill) }
	}
	switch behaviour {
	case "busy", "busy-exit-1200":
		go cli.Do("sleep", "ms", 10000)
		time.Sleep(150 * time.Millisecond)
	case "frozen":
		killOurs(s.obs.Pid, syscall.SIGSTOP)
		if st := waitState(s.obs.Pid, 5*time.Second, "T"); st != "T" {
			s.obs.SetupErr = "could not freeze plugin, state " + st
		}
	case "crashed":
		killOurs(s.obs.Pid, syscall.SIGKILL)
		waitState(s.obs.Pid, 5*time.Second, "gone", "Z")
		time.Sleep(50 * time.Millisecond)
	}
	s.obs.StateBefore = procState(s.obs.Pid)
	return s
}

func (s *c04Setup) finish() {
	s.obs.StateAfter = procState(s.obs.Pid)
	if s.obs.StateAfter == "Z" {
		// the parent's wait goroutine may be a moment behind
		s.obs.StateAfter = waitState(s.obs.Pid, 2*time.Second, "gone")
	}
	s.obs.Exited = s.killer.Exited()
	_, err := os.Stat(s.l.Marker)
	s.obs.Marker = err == nil
	if s.cleanup != nil {
		s.cleanup()
	}
	s.l.hardKill()
}

func c04H(behaviour, proto string) time.Duration {
	n := 3 * time.Second
	if behaviour == "frozen" {
		n = 5 * time.Second
		if proto != "grpc" {
			n = 45 * time.Second // bounded only by the yamux keep-alive
		}
	}
	return hangAfter(n)
}

func TestC04(t *testing.T) {
	forCases(t, 16, func(c spec.Case, e Em) {
		var p spec.C04Case
		param(c, &p)
		var o spec.C04Obs
		if p.Pattern == "cleanup" {
			var ss []*c04Setup
			for i, b := range p.Behaviours {
				ss = append(ss, c04Prepare(c.ID, i, b, p.Proto, p.Launch, true, i < len(p.PreKill) && p.PreKill[i], p.PreCleanup && i == 0))
			}
			H := 20 * time.Second
			for _, b := range p.Behaviours {
				if h := c04H(b, p.Proto); h > H {
					H = h
				}
			}
			e.Call("h", "CleanupClients", nil)
			var second sync.WaitGroup
			if p.DoubleCleanup {
				second.Add(1)
				go func() {
					defer second.Done()
					time.Sleep(150 * time.Millisecond)
					if ok2, _, _ := within(H, plugin.CleanupClients); ok2 {
						for _, s := range ss {
							o.SecondReturnStates = append(o.SecondReturnStates, procState(s.obs.Pid))
						}
					}
				}()
			}
			ok, el, dump := within(H, plugin.CleanupClients)
			second.Wait()
			o.KilledFlag = atomic.LoadUint32(&plugin.Killed)
			for _, s := range ss {
				s.obs.KillReturned, s.obs.KillMs = ok, el.Milliseconds()
				if !ok {
					s.obs.Dump = trunc(dump, 4000)
				}
				s.finish()
				o.Clients = append(o.Clients, s.obs)
			}
			e.Ret("h", "CleanupClients", o)
			return
		}
		s := c04Prepare(c.ID, 0, p.Behaviour, p.Proto, p.Launch, false, false, false)
		if s.obs.SetupErr != "" {
			s.l.hardKill()
			o.Clients = []spec.C04Client{s.obs}
			e.Ret("h", "Kill", o)
			return
		}
		H := c04H(p.Behaviour, p.Proto)
		var earlyMu sync.Mutex
		kill := func() (ok bool, ms int64, pan string, dump string) {
			ok, el, d := within(H, func() {
				defer func() {
					if r := recover(); r != nil {
						pan = fmt.Sprint(r)
					}
				}()
				s.killer.Kill()
				// at the return of *this* Kill call
				st, ex := procState(s.obs.Pid), s.killer.Exited()
				if !terminated(st) || !ex {
					earlyMu.Lock()
					s.obs.EarlyReturn = fmt.Sprintf("a Kill call returned with the process in state %q and Exited()=%v", st, ex)
					earlyMu.Unlock()
				}
			})
			return ok, el.Milliseconds(), pan, d
		}
		e.Call("h", "Kill", nil)
		switch p.Pattern {
		case "single":
			s.obs.KillReturned, s.obs.KillMs, s.obs.Panic, s.obs.Dump = kill()
		case "sequential":
			s.obs.KillReturned = true
			for i := 0; i < 3; i++ {
				ok, ms, pan, dump := kill()
				s.obs.KillReturned = s.obs.KillReturned && ok
				if i == 0 {
					s.obs.KillMs = ms
				}
				if pan != "" {
					s.obs.Panic = pan
				}
				if !ok {
					s.obs.Dump = dump
					break
				}
			}
		case "concurrent":
			var wg sync.WaitGroup
			var mu sync.Mutex
			s.obs.KillReturned = true
			for i := 0; i < 4; i++ {
				wg.Add(1)
				go func() {
					defer wg.Done()
					ok, ms, pan, dump := kill()
					mu.Lock()
					defer mu.Unlock()
					s.obs.KillReturned = s.obs.KillReturned && ok
					if ms > s.obs.KillMs {
						s.obs.KillMs = ms
					}
					if pan != "" {
						s.obs.Panic = pan
					}
					if !ok {
						s.obs.Dump = dump
					}
				}()
			}
			wg.Wait()
		}
		s.obs.Dump = trunc(s.obs.Dump, 5000)
		s.finish()
		o.Clients = []spec.C04Client{s.obs}
		e.Ret("h", "Kill", o)
	})
}
