package host

import (
	"encoding/json"
	"fmt"
	"os"
	"path/filepath"
	"runtime"
	"sync"
	"sync/atomic"
	"testing"
	"time"

	hclog "github.com/hashicorp/go-hclog"
	"verif/spec"
)

var (
	L         *spec.Log
	allCases  []spec.Case
	pluginBin = os.Getenv("VERIF_PLUGIN")
	runDir    = os.Getenv("VERIF_DIR")
)

func TestMain(m *testing.M) {
	if p := os.Getenv("VERIF_EVENTS"); p != "" {
		var err error
		L, err = spec.OpenLog(p)
		if err != nil {
			fmt.Fprintln(os.Stderr, "vhost: open log:", err)
			os.Exit(3)
		}
		allCases, err = spec.ReadCases(os.Getenv("VERIF_CASES"))
		if err != nil {
			fmt.Fprintln(os.Stderr, "vhost: read cases:", err)
			os.Exit(3)
		}
	}
	code := m.Run()
	if L != nil {
		L.Close()
	}
	os.Exit(code)
}

// Em emits events for one case.
type Em struct{ C int }

func (e Em) Call(g, op string, d any) int64 { return L.Emit(e.C, g, "call", op, d) }
func (e Em) Ret(g, op string, d any) int64  { return L.Emit(e.C, g, "ret", op, d) }
func (e Em) Obs(op string, d any)           { L.Emit(e.C, "", "obs", op, d) }
func (e Em) Note(op string, d any)          { L.Emit(e.C, "", "note", op, d) }

// forCases runs fn over all cases, par at a time. case-begin (with the full
// input) is flushed before fn touches go-plugin; case-end after.
func forCases(t *testing.T, par int, fn func(c spec.Case, e Em)) {
	if L == nil {
		t.Skip("not run under vcheck")
	}
	if par < 1 {
		par = 1
	}
	sem := make(chan struct{}, par)
	var wg sync.WaitGroup
	for _, c := range allCases {
		wg.Add(1)
		sem <- struct{}{}
		go func(c spec.Case) {
			defer wg.Done()
			defer func() { <-sem }()
			L.Emit(c.ID, "", "case-begin", c.Kind, c.P)
			fn(c, Em{c.ID})
			L.Emit(c.ID, "", "case-end", "", nil)
		}(c)
	}
	wg.Wait()
}

func param(c spec.Case, v any) {
	if err := json.Unmarshal(c.P, v); err != nil {
		panic(fmt.Sprintf("case %d: bad params: %v", c.ID, err))
	}
}

// within runs fn and waits at most d for it. It reports whether fn returned;
// if not, dump holds the goroutine dump taken at the deadline (fn's goroutine
// is left behind — the caller records a hang).
//
// d is counted in time during which this process was being scheduled normally: the wait proceeds in ticks of
// 100 ms, and a tick that took more than 300 ms (machine overloaded, process stopped) does not count. A
// machine on which nothing gets to run for a while must not turn into a "hang" of the code under test; a
// call that is really stuck stays stuck and is reported once d of healthy time has passed (or, whatever
// the ticks say, after 6*d).
func within(d time.Duration, fn func()) (ok bool, elapsed time.Duration, dump string) {
	done := make(chan struct{})
	t0 := time.Now()
	go func() { defer close(done); fn() }()
	tick := time.NewTicker(100 * time.Millisecond)
	defer tick.Stop()
	var healthy time.Duration
	last := t0
	for {
		select {
		case <-done:
			return true, time.Since(t0), ""
		case <-tick.C:
			now := time.Now()
			if dt := now.Sub(last); dt <= 300*time.Millisecond {
				healthy += dt
			} else {
				starvedTicks.Add(1)
			}
			last = now
			if healthy >= d || now.Sub(t0) >= 6*d {
				buf := make([]byte, 1<<20)
				n := runtime.Stack(buf, true)
				return false, time.Since(t0), string(buf[:n])
			}
		}
	}
}

// starvedTicks counts 100 ms ticks of within() that took more than 300 ms.
var starvedTicks atomic.Int64

// caseDir returns a short private directory for one case (socket paths must
// stay under 108 bytes).
func caseDir(c int, sub string) string {
	d := filepath.Join(runDir, "t", fmt.Sprintf("c%d%s", c, sub))
	os.MkdirAll(d, 0o755)
	return d
}

func quietLogger() hclog.Logger {
	return hclog.NewNullLogger()
}

func errStr(err error) string {
	if err == nil {
		return ""
	}
	return err.Error()
}

func seedEnv() int64 {
	var s int64 = 1
	fmt.Sscan(os.Getenv("VERIF_SEED"), &s)
	return s
}
