package host

import (
	"encoding/json"
	"fmt"
	"os"
	"path/filepath"
	"runtime"
	"sync"
	"testing"
	"time"

	hclog "github.com/hashicorp/go-hclog"
	"verif/spec"
)

var (
	L         *spec.Log
	allCases  []spec.Case
	pluginBin = os.Getenv("VERIF_PLUGIN")
	runDir    = os.Getenv("VERIF_DIR")
)

func TestMain(m *testing.M) {
	if p := os.Getenv("VERIF_EVENTS"); p != "" {
		var err error
		L, err = spec.OpenLog(p)
		if err != nil {
			fmt.Fprintln(os.Stderr, "vhost: open log:", err)
			os.Exit(3)
		}
		allCases, err = spec.ReadCases(os.Getenv("VERIF_CASES"))
		if err != nil {
			fmt.Fprintln(os.Stderr, "vhost: read cases:", err)
			os.Exit(3)
		}
	}
	code := m.Run()
	if L != nil {
		L.Close()
	}
	os.Exit(code)
}

// Em emits events for one case.
type Em struct{ C int }

func (e Em) Call(g, op string, d any) int64 { return L.Emit(e.C, g, "call", op, d) }
func (e Em) Ret(g, op string, d any) int64  { return L.Emit(e.C, g, "ret", op, d) }
func (e Em) Obs(op string, d any)           { L.Emit(e.C, "", "obs", op, d) }
func (e Em) Note(op string, d any)          { L.Emit(e.C, "", "note", op, d) }

// forCases runs fn over all cases, par at a time. case-begin (with the full
// input) is flushed before fn touches go-plugin; case-end after.
func forCases(t *testing.T, par int, fn func(c spec.Case, e Em)) {
	if L == nil {
		t.Skip("not run under vcheck")
	}
	if par < 1 {
		par = 1
	}
	sem := make(chan struct{}, par)
	var wg sync.WaitGroup
	for _, c := range allCases {
		wg.Add(1)
		sem <- struct{}{}
		go func(c spec.Case) {
			defer wg.Done()
			defer func() { <-sem }()
			L.Emit(c.ID, "", "case-begin", c.Kind, c.P)
			fn(c, Em{c.ID})
			L.Emit(c.ID, "", "case-end", "", nil)
		}(c)
	}
	wg.Wait()
}

func param(c spec.Case, v any) {
	if err := json.Unmarshal(c.P, v); err != nil {
		panic(fmt.Sprintf("case %d: bad params: %v", c.ID, err))
	}
}

// within runs fn and waits at most d for it. It reports whether fn returned;
// if not, dump holds the goroutine dump taken at the deadline (fn's goroutine
// is left behind — the caller records a hang).
func within(d time.Duration, fn func()) (ok bool, elapsed time.Duration, dump string) {
	done := make(chan struct{})
	t0 := time.Now()
	go func() { defer close(done); fn() }()
	select {
	case <-done:
		return true, time.Since(t0), ""
	case <-time.After(d):
		buf := make([]byte, 1<<20)
		n := runtime.Stack(buf, true)
		return false, time.Since(t0), string(buf[:n])
	}
}

// caseDir returns a short private directory for one case (socket paths must
// stay under 108 bytes).
func caseDir(c int, sub string) string {
	d := filepath.Join(runDir, "t", fmt.Sprintf("c%d%s", c, sub))
	os.MkdirAll(d, 0o755)
	return d
}

func quietLogger() hclog.Logger {
	return hclog.NewNullLogger()
}

func errStr(err error) string {
	if err == nil {
		return ""
	}
	return err.Error()
}

func seedEnv() int64 {
	var s int64 = 1
	fmt.Sscan(os.Getenv("VERIF_SEED"), &s)
	return s
}
