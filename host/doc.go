// Package host contains the host-side workloads, compiled as a go test binary
// (vhost) so that testing.TB exists for go-plugin's public Test* helpers.
package host
