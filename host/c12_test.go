package host

import (
	"bufio"
	"context"
	"crypto/tls"
	"crypto/x509"
	"encoding/base64"
	"fmt"
	"io"
	"net"
	"net/rpc"
	"os"
	"os/exec"
	"path/filepath"
	"sort"
	"strings"
	"syscall"
	"testing"
	"time"

	plugin "github.com/hashicorp/go-plugin"
	grpctest "github.com/hashicorp/go-plugin/test/grpc"
	"github.com/hashicorp/yamux"
	"google.golang.org/grpc"
	"google.golang.org/grpc/credentials"
	"google.golang.org/grpc/credentials/insecure"
	"google.golang.org/grpc/health/grpc_health_v1"
	"verif/spec"
	"verif/vp"
)

type cred struct {
	name string
	tls  *tls.Config // nil = plaintext
}

func intruderCreds() []cred {
	c1, k1, _ := vp.GenCertNamed("intruder", "Evil Corp")
	c2, k2, _ := vp.GenCert() // same subject/SAN as AutoMTLS certificates, another key
	mk := func(certs ...tls.Certificate) *tls.Config {
		return &tls.Config{InsecureSkipVerify: true, Certificates: certs, ServerName: "localhost", MinVersion: tls.VersionTLS12}
	}
	strict := &tls.Config{RootCAs: vp.PoolOf(c2), Certificates: []tls.Certificate{vp.KeyPair(c2, k2)}, ServerName: "localhost"}
	return []cred{
		{"plaintext", nil},
		{"tls-nocert", mk()},
		{"tls-selfsigned-other-name", mk(vp.KeyPair(c1, k1))},
		{"tls-same-name-other-key", mk(vp.KeyPair(c2, k2))},
		{"tls-same-name-verifying-own-ca", strict},
	}
}

const intrudeTimeout = 4 * time.Second

func dialUnix(path string, tc *tls.Config) (net.Conn, error) {
	c, err := net.DialTimeout("unix", path, intrudeTimeout)
	if err != nil {
		return nil, err
	}
	c.SetDeadline(time.Now().Add(intrudeTimeout))
	if tc != nil {
		tc := tls.Client(c, tc.Clone())
		if err := tc.Handshake(); err != nil {
			c.Close()
			return nil, fmt.Errorf("tls handshake: %w", err)
		}
		return tc, nil
	}
	return c, nil
}

// intrudeNetRPC speaks the net/rpc plugin protocol: yamux, control stream, Control.Ping.
func intrudeNetRPC(path string, cr cred) (bool, error) {
	conn, err := dialUnix(path, cr.tls)
	if err != nil {
		return false, err
	}
	defer conn.Close()
	ycfg := yamux.DefaultConfig()
	ycfg.LogOutput = discard{}
	ycfg.ConnectionWriteTimeout = intrudeTimeout
	ycfg.StreamOpenTimeout = intrudeTimeout
	sess, err := yamux.Client(conn, ycfg)
	if err != nil {
		return false, err
	}
	defer sess.Close()
	st, err := sess.Open()
	if err != nil {
		return false, err
	}
	st.SetDeadline(time.Now().Add(intrudeTimeout))
	// the server serves the control stream only once the two stdio streams have been opened as well
	for i := 0; i < 2; i++ {
		ss, err := sess.Open()
		if err != nil {
			return false, err
		}
		defer ss.Close()
		go io.Copy(io.Discard, ss)
	}
	cl := rpc.NewClient(st)
	defer cl.Close()
	var empty struct{}
	call := cl.Go("Control.Ping", true, &empty, nil)
	select {
	case <-call.Done:
		if call.Error != nil {
			return false, call.Error
		}
		return true, nil
	case <-time.After(intrudeTimeout):
		return false, fmt.Errorf("no answer in %v", intrudeTimeout)
	}
}

func grpcConn(path string, cr cred, viaYamux bool) (*grpc.ClientConn, func(), error) {
	var sess *yamux.Session
	dialer := func(ctx context.Context, _ string) (net.Conn, error) {
		if viaYamux {
			raw, err := net.DialTimeout("unix", path, intrudeTimeout)
			if err != nil {
				return nil, err
			}
			ycfg := yamux.DefaultConfig()
			ycfg.LogOutput = discard{}
			ycfg.StreamOpenTimeout = intrudeTimeout
			s, err := yamux.Client(raw, ycfg)
			if err != nil {
				return nil, err
			}
			sess = s
			return s.Open()
		}
		return net.DialTimeout("unix", path, intrudeTimeout)
	}
	tc := insecure.NewCredentials()
	if cr.tls != nil {
		tc = credentials.NewTLS(cr.tls.Clone())
	}
	cc, err := grpc.Dial("unused", grpc.WithContextDialer(dialer), grpc.WithTransportCredentials(tc))
	return cc, func() {
		if cc != nil {
			cc.Close()
		}
		if sess != nil {
			sess.Close()
		}
	}, err
}

func intrudeGRPC(path string, cr cred, viaYamux bool, pingpong bool) (bool, error) {
	cc, closer, err := grpcConn(path, cr, viaYamux)
	defer closer()
	if err != nil {
		return false, err
	}
	ctx, cancel := context.WithTimeout(context.Background(), intrudeTimeout)
	defer cancel()
	if pingpong {
		_, err = grpctest.NewPingPongClient(cc).Ping(ctx, &grpctest.PingRequest{})
	} else {
		_, err = grpc_health_v1.NewHealthClient(cc).Check(ctx, &grpc_health_v1.HealthCheckRequest{Service: plugin.GRPCServiceName})
	}
	if err != nil {
		return false, err
	}
	return true, nil
}

// c12DirectEnv starts the plugin the way a host does (cookie, version list, PLUGIN_CLIENT_CERT) but with a
// PLUGIN_CLIENT_CERT of an unusual shape, and then knocks on its main listener as the legitimate host
// (holding the key of the certificate in the variable) and as every intruder class.
func c12DirectEnv(c spec.Case, p spec.C12Case, wire string, o *spec.C12Obs) {
	d := caseDir(c.ID, "")
	hostCert, hostKey, _ := vp.GenCert()
	otherCert, _, _ := vp.GenCert()
	_, someKey, _ := vp.GenCert()
	junkBlock := "-----BEGIN CERTIFICATE-----\n" + base64.StdEncoding.EncodeToString([]byte("this is not a DER certificate, just some bytes of padding....")) + "\n-----END CERTIFICATE-----\n"
	var env string
	hasHost := true
	switch p.CertEnv {
	case "plain":
		env = string(hostCert)
	case "cert+junkblock":
		env = string(hostCert) + junkBlock
	case "junkblock+cert":
		env = junkBlock + string(hostCert)
	case "cert+keyblock":
		env = string(hostCert) + string(someKey)
	case "cert+text":
		env = string(hostCert) + "trailing text that is not PEM\n"
	case "two-certs":
		env = string(hostCert) + string(otherCert)
	case "junkblock-only":
		env, hasHost = junkBlock, false
	case "text-only":
		env, hasHost = "not a certificate at all", false
	}
	pcfg := pluginCfgFor(wire)
	pcfg["tmpDir"] = d
	pcfg["ctl"] = ""
	cf := writeCfg(d, pcfg)
	cmd := exec.Command(pluginBin, cf)
	cmd.Env = []string{"TMPDIR=" + d, spec.CookieKey + "=" + spec.CookieValue, "PLUGIN_PROTOCOL_VERSIONS=1", "PLUGIN_CLIENT_CERT=" + env}
	cmd.SysProcAttr = &syscall.SysProcAttr{Setpgid: true}
	stdout, _ := cmd.StdoutPipe()
	if err := cmd.Start(); err != nil {
		o.SetupErr = err.Error()
		return
	}
	defer func() {
		syscall.Kill(-cmd.Process.Pid, syscall.SIGKILL)
		cmd.Wait()
	}()
	lineCh := make(chan string, 1)
	go func() {
		br := bufio.NewReader(stdout)
		line, _ := br.ReadString('\n')
		lineCh <- line
		io.Copy(io.Discard, br)
	}()
	var line string
	select {
	case line = <-lineCh:
	case <-time.After(15 * time.Second):
		o.SetupErr = "no handshake line within 15 s"
		return
	}
	o.Line = strings.TrimSpace(line)
	parts := strings.Split(o.Line, "|")
	if len(parts) < 5 || parts[2] != "unix" {
		// the plugin refused to serve with this variable: nothing is exposed
		o.Positive = "plugin did not announce a listener: " + trunc(o.Line, 80)
		return
	}
	sock := parts[3]
	probe := func(cr cred) (bool, error) {
		if wire == "netrpc" {
			return intrudeNetRPC(sock, cr)
		}
		return intrudeGRPC(sock, cr, false, false)
	}
	// the legitimate host: presents the certificate from the variable, trusts the announced one
	if hasHost && len(parts) >= 6 && parts[5] != "" {
		if der, err := base64.RawStdEncoding.DecodeString(parts[5]); err == nil {
			if pc, err := x509.ParseCertificate(der); err == nil {
				pool := x509.NewCertPool()
				pool.AddCert(pc)
				ok, err := probe(cred{"legit", &tls.Config{RootCAs: pool, Certificates: []tls.Certificate{vp.KeyPair(hostCert, hostKey)}, ServerName: "localhost", MinVersion: tls.VersionTLS12}})
				o.PositiveOK, o.Positive = ok, "legitimate host: "+errStr(err)
			}
		}
	} else if len(parts) < 6 || parts[5] == "" {
		o.Positive = "no certificate announced"
	}
	o.Target = sock
	for _, cr := range intruderCreds() {
		t0 := time.Now()
		ans, err := probe(cr)
		o.Attempts = append(o.Attempts, spec.C12Attempt{Cred: cr.name, Answered: ans, Err: trunc(errStr(err), 160), Ms: time.Since(t0).Milliseconds()})
	}
}

func sockets(dir string) []string {
	var out []string
	filepath.Walk(dir, func(p string, info os.FileInfo, err error) error {
		if err == nil && info.Mode()&os.ModeSocket != 0 && !strings.HasSuffix(p, "ctl.sock") {
			out = append(out, p)
		}
		return nil
	})
	sort.Strings(out)
	return out
}

func newSocket(before, after []string) string {
	seen := map[string]bool{}
	for _, s := range before {
		seen[s] = true
	}
	for _, s := range after {
		if !seen[s] {
			return s
		}
	}
	return ""
}

func TestC12(t *testing.T) {
	forCases(t, 8, func(c spec.Case, e Em) {
		var p spec.C12Case
		param(c, &p)
		var o spec.C12Obs
		wire, mux := p.Proto, false
		if p.Proto == "grpcmux" {
			wire, mux = "grpc", true
		}
		cfg := baseClientConfig()
		cfg.AutoMTLS = true
		cfg.GRPCBrokerMultiplex = mux
		cfg.StartTimeout = 10 * time.Second
		hostSetFor(cfg, wire)
		done := func() { e.Ret("h", "mtls", o) }
		if p.Path == "direct-env" {
			c12DirectEnv(c, p, wire, &o)
			done()
			return
		}
		if strings.HasPrefix(p.Path, "relaunch-impostor") {
			// One ClientConfig object used for two launches (a supervisor restarting
			// its plugin): launch 1 is well-behaved (announces and serves certificate
			// A); launch 2 announces a fresh certificate B but serves with A's key.
			idDir := caseDir(c.ID, "id")
			try := func(l *launched) (ops []string, anyOK bool) {
				rec := func(op string, err error) {
					st := "ok"
					if err != nil {
						st = "err " + trunc(err.Error(), 100)
					} else if op != "Start" && op != "Client" && op != "Dispense" {
						anyOK = true
					}
					ops = append(ops, op+": "+st)
				}
				okk, _, _ := within(40*time.Second, func() {
					_, err := l.Client.Start()
					rec("Start", err)
					if err != nil {
						return
					}
					cp, err := l.Client.Client()
					rec("Client", err)
					if err != nil {
						return
					}
					rec("Ping", cp.Ping())
					raw, err := cp.Dispense("kv")
					rec("Dispense", err)
					if err == nil {
						_, err = raw.(vp.Cli).Do("tag")
						rec("Call", err)
					}
				})
				if !okk {
					ops = append(ops, "HUNG")
				}
				within(20*time.Second, l.Client.Kill)
				l.hardKill()
				return
			}
			l1 := prepare(c.ID, "a", map[string]any{"mode": "impostor", "impostorOf": wire, "impAnnounceServed": true, "impSaveTo": idDir, "ctl": ""}, cfg, "cmd")
			ops1, ok1 := try(l1)
			o.PositiveOK, o.Positive = ok1, fmt.Sprint("launch 1 (announces and serves A): ", ops1)
			// (-nocert / -shortcert: launch 2 announces no certificate at all, or a certificate field too short
			// to be one, and serves with A's key)
			pc2 := map[string]any{"mode": "impostor", "impostorOf": wire, "impServeFrom": idDir, "ctl": ""}
			switch p.Path {
			case "relaunch-impostor-nocert":
				pc2["impAnnounce"] = "none"
			case "relaunch-impostor-shortcert":
				pc2["impAnnounce"] = "short"
			}
			l2 := prepare(c.ID, "b", pc2, cfg, "cmd")
			o.HostOps, o.AnyOK = try(l2)
			done()
			return
		}
		if p.Impostor != "" {
			pcfg := map[string]any{"mode": "impostor", "impostorOf": wire, "plaintext": p.Impostor == "plaintext", "ctl": ""}
			if strings.HasPrefix(p.Impostor, "chain-") {
				pcfg["impChain"] = strings.TrimPrefix(p.Impostor, "chain-")
			}
			l := prepare(c.ID, "", pcfg, cfg, "cmd")
			defer l.hardKill()
			rec := func(op string, err error) {
				s := "ok"
				if err != nil {
					s = "err " + trunc(err.Error(), 120)
				} else {
					o.AnyOK = o.AnyOK || op != "Start" && op != "Client" && op != "Dispense"
				}
				o.HostOps = append(o.HostOps, op+": "+s)
			}
			ok, _, _ := within(40*time.Second, func() {
				_, err := l.Client.Start()
				rec("Start", err)
				if err != nil {
					return
				}
				cp, err := l.Client.Client()
				rec("Client", err)
				if err != nil {
					return
				}
				rec("Ping", cp.Ping())
				raw, err := cp.Dispense("kv")
				rec("Dispense", err)
				if err == nil {
					_, err = raw.(vp.Cli).Do("tag")
					rec("Call", err)
				}
			})
			if !ok {
				o.HostOps = append(o.HostOps, "HUNG")
			}
			within(20*time.Second, l.Client.Kill)
			done()
			return
		}
		mainPcfg := pluginCfgFor(wire)
		if p.Path == "main-tlsprovider" {
			// the plugin serves with a TLSProvider of its own (a certificate, no client authentication) and is
			// launched by a host that asks for AutoMTLS
			d := caseDir(c.ID, "tp")
			sc, sk, _ := vp.GenCert()
			os.WriteFile(filepath.Join(d, "cert.pem"), sc, 0o600)
			os.WriteFile(filepath.Join(d, "key.pem"), sk, 0o600)
			mainPcfg["tlsCert"], mainPcfg["tlsKey"] = filepath.Join(d, "cert.pem"), filepath.Join(d, "key.pem")
		}
		l := prepare(c.ID, "", mainPcfg, cfg, p.Launch)
		defer l.hardKill()
		if _, err := l.Client.Start(); err != nil && p.Path == "main-tlsprovider" {
			o.Positive = "Start refused: " + err.Error()
			done()
			return
		} else if err != nil {
			o.SetupErr = "start: " + err.Error()
			done()
			return
		}
		rc := l.Client.ReattachConfig()
		mainSock := ""
		if rc != nil && rc.Addr != nil {
			mainSock = rc.Addr.String()
		}
		creds := intruderCreds()
		attack := func(target string, fn func(cr cred) (bool, error)) {
			o.Target = target
			for _, cr := range creds {
				t0 := time.Now()
				ans, err := fn(cr)
				o.Attempts = append(o.Attempts, spec.C12Attempt{Cred: cr.name, Answered: ans, Err: trunc(errStr(err), 160), Ms: time.Since(t0).Milliseconds()})
			}
		}
		if p.Path == "main-race" {
			// multiplexed listener: the intruder takes the single yamux session before the host connects
			attack(mainSock, func(cr cred) (bool, error) { return intrudeGRPC(mainSock, cr, true, false) })
			o.PositiveOK, o.Positive = true, "n/a (the intruder holds the only session)"
			within(20*time.Second, l.Client.Kill)
			done()
			return
		}
		if p.Path == "main-tlsprovider" {
			ok, _, _ := within(30*time.Second, func() {
				cp, err := l.Client.Client()
				if err != nil {
					o.Positive = "Client: " + err.Error()
					return
				}
				if err := cp.Ping(); err != nil {
					o.Positive = "Ping: " + err.Error()
					return
				}
				raw, err := cp.Dispense("kv")
				if err != nil {
					o.Positive = "Dispense: " + err.Error()
					return
				}
				if _, err := raw.(vp.Cli).Do("tag"); err != nil {
					o.Positive = "call: " + err.Error()
					return
				}
				o.PositiveOK, o.Positive = true, "the host's Ping and call were served"
			})
			if !ok {
				o.Positive = "host operations hung"
			}
			if p.Proto == "netrpc" {
				attack(mainSock, func(cr cred) (bool, error) { return intrudeNetRPC(mainSock, cr) })
			} else {
				attack(mainSock, func(cr cred) (bool, error) { return intrudeGRPC(mainSock, cr, false, false) })
			}
			within(20*time.Second, l.Client.Kill)
			done()
			return
		}
		cp, err := l.Client.Client()
		if err != nil {
			o.SetupErr = "client: " + err.Error()
			done()
			return
		}
		raw, err := cp.Dispense("kv")
		if err != nil {
			o.SetupErr = "dispense: " + err.Error()
			done()
			return
		}
		cli := raw.(vp.Cli)
		switch p.Path {
		case "main":
			if err := cp.Ping(); err == nil {
				if _, err = cli.Do("tag"); err == nil {
					o.PositiveOK, o.Positive = true, "host Ping + call on the same listener succeeded"
				}
			}
			switch p.Proto {
			case "netrpc":
				attack(mainSock, func(cr cred) (bool, error) { return intrudeNetRPC(mainSock, cr) })
			case "grpc":
				attack(mainSock, func(cr cred) (bool, error) { return intrudeGRPC(mainSock, cr, false, false) })
			case "grpcmux":
				attack(mainSock, func(cr cred) (bool, error) { return intrudeGRPC(mainSock, cr, true, false) })
			}
		case "brokered-address-impostor":
			// (no multiplexing) the address announced for a brokered id is served by somebody presenting another
			// certificate; the host keeps trying for a while, as gRPC does by itself after a refused handshake
			g := cli.(*vp.GRPCCli)
			if _, err := cli.Do("grpc-accept", "id", 501, "nonce", "legit"); err == nil {
				if r := vp.GRPCDialPing(g.Broker, 501, 20*time.Second, true); r.DialErr == "" && r.PingErr == "" && r.Msg == "501/legit" {
					o.PositiveOK, o.Positive = true, "host dialled a genuine brokered listener and was answered "+r.Msg
				} else {
					o.Positive = r.DialErr + r.PingErr
				}
			}
			if _, err := cli.Do("grpc-accept-impostor", "id", 502); err != nil {
				o.SetupErr = "impostor accept: " + err.Error()
				break
			}
			o.Target = "brokered address of id 502, served with a fresh self-signed certificate"
			t0 := time.Now()
			a := spec.C12Attempt{Cred: "impostor-at-brokered-address"}
			if conn, err := g.Broker.Dial(502); err != nil {
				a.Err = "dial: " + err.Error()
			} else {
				for time.Since(t0) < 5*time.Second {
					msg, err := vp.PingConn(conn, 1500*time.Millisecond, grpc.WaitForReady(true))
					if err == nil {
						a.Answered, a.Err = true, "answered by "+msg
						break
					}
					a.Err = trunc(err.Error(), 160)
				}
				conn.Close()
			}
			a.Ms = time.Since(t0).Milliseconds()
			o.Attempts = append(o.Attempts, a)
		case "plugin-brokered-session", "host-brokered-session":
			// brokered listeners that have no socket of their own (multiplexing), or reached the broker's own
			// way: the dial goes through the broker's DialWithOptions (the session, the knock) with only the
			// transport credentials replaced by those of an intruder class
			g := cli.(*vp.GRPCCli)
			if p.Path == "plugin-brokered-session" {
				if _, err := cli.Do("grpc-accept", "id", 501, "nonce", "legit"); err != nil {
					o.SetupErr = "plugin accept: " + err.Error()
					break
				}
				r := vp.GRPCDialPing(g.Broker, 501, 20*time.Second, true)
				if r.DialErr == "" && r.PingErr == "" && r.Msg == "501/legit" {
					o.PositiveOK, o.Positive = true, "host dialled the brokered listener and was answered "+r.Msg
				} else {
					o.Positive = r.DialErr + r.PingErr
				}
				o.Target = "plugin-side brokered listener 501 through the host's broker"
				for _, cn := range vp.IntruderCredNames {
					t0 := time.Now()
					ans, es := vp.GRPCDialAs(g.Broker, 501, cn, intrudeTimeout)
					o.Attempts = append(o.Attempts, spec.C12Attempt{Cred: cn, Answered: ans, Err: trunc(es, 160), Ms: time.Since(t0).Milliseconds()})
				}
			} else {
				if p.Proto == "grpc" {
					// the host's broker has dialled before it accepts for the first time
					if _, err := cli.Do("grpc-accept", "id", 551, "nonce", "warm"); err == nil {
						vp.GRPCDialPing(g.Broker, 551, 20*time.Second, true)
					}
				}
				h := vp.GRPCAcceptServe(g.Broker, 601, "hostlegit")
				defer h.Stop()
				m, err := cli.Do("grpc-dial", "id", 601, "timeoutMs", 20000)
				if err == nil && vp.Str(m, "msg") == "601/hostlegit" {
					o.PositiveOK, o.Positive = true, "the plugin dialled the host-side brokered listener and was answered"
				} else {
					o.Positive = fmt.Sprint(m, err)
				}
				o.Target = "host-side brokered listener 601 through the plugin's broker"
				for _, cn := range vp.IntruderCredNames {
					t0 := time.Now()
					m, err := cli.Do("grpc-dial-as", "id", 601, "cred", cn, "timeoutMs", int(intrudeTimeout/time.Millisecond))
					a := spec.C12Attempt{Cred: cn, Ms: time.Since(t0).Milliseconds()}
					if err != nil {
						o.SetupErr = "grpc-dial-as: " + err.Error()
						break
					}
					a.Answered, a.Err = vp.Bool(m, "answered"), trunc(vp.Str(m, "err"), 160)
					o.Attempts = append(o.Attempts, a)
				}
			}
		case "plugin-brokered":
			g := cli.(*vp.GRPCCli)
			dirs := []string{l.Dir, l.HostDir}
			var before []string
			for _, d := range dirs {
				before = append(before, sockets(d)...)
			}
			if _, err := cli.Do("grpc-accept", "id", 501, "nonce", "legit"); err != nil {
				o.SetupErr = "plugin accept: " + err.Error()
				break
			}
			r := vp.GRPCDialPing(g.Broker, 501, 20*time.Second, true)
			if r.DialErr == "" && r.PingErr == "" && r.Msg == "501/legit" {
				o.PositiveOK, o.Positive = true, "host dialled the brokered listener and was answered "+r.Msg
			} else {
				o.Positive = r.DialErr + r.PingErr
			}
			var after []string
			for _, d := range dirs {
				after = append(after, sockets(d)...)
			}
			target := newSocket(before, after)
			if target == "" {
				o.SetupErr = "could not find the plugin-side brokered socket"
				break
			}
			attack(target, func(cr cred) (bool, error) { return intrudeGRPC(target, cr, false, true) })
		case "host-brokered":
			g := cli.(*vp.GRPCCli)
			dirs := []string{l.Dir, l.HostDir}
			var before []string
			for _, d := range dirs {
				before = append(before, sockets(d)...)
			}
			if p.Launch == "runner-translate" {
				// the host's broker has dialled before it accepts for the first time
				if _, err := cli.Do("grpc-accept", "id", 551, "nonce", "warm"); err == nil {
					vp.GRPCDialPing(g.Broker, 551, 20*time.Second, true)
				}
				before = nil
				for _, d := range dirs {
					before = append(before, sockets(d)...)
				}
			}
			h := vp.GRPCAcceptServe(g.Broker, 601, "hostlegit")
			defer h.Stop()
			m, err := cli.Do("grpc-dial", "id", 601, "timeoutMs", 20000)
			if err == nil && vp.Str(m, "msg") == "601/hostlegit" {
				o.PositiveOK, o.Positive = true, "the plugin dialled the host-side brokered listener and was answered"
			} else {
				o.Positive = fmt.Sprint(m, err)
			}
			var after []string
			for _, d := range dirs {
				after = append(after, sockets(d)...)
			}
			target := newSocket(before, after)
			if target == "" {
				o.SetupErr = "could not find the host-side brokered socket"
				break
			}
			attack(target, func(cr cred) (bool, error) { return intrudeGRPC(target, cr, false, true) })
		}
		within(20*time.Second, l.Client.Kill)
		done()
	})
}
