package host

import (
	"encoding/json"
	"errors"
	"fmt"
	"os"
	"os/exec"
	"path/filepath"
	"strings"
	"sync"
	"syscall"
	"testing"
	"time"

	hclog "github.com/hashicorp/go-hclog"
	plugin "github.com/hashicorp/go-plugin"
	"github.com/hashicorp/go-plugin/runner"
	"verif/spec"
	"verif/vp"
)

func TestC17(t *testing.T) {
	// sequential: each case edits the process environment
	forCases(t, 1, func(c spec.Case, e Em) {
		var p spec.C17Case
		param(c, &p)
		var set []string
		for _, kv := range p.Ambient {
			k, v, _ := strings.Cut(kv, "=")
			os.Setenv(k, v)
			set = append(set, k)
		}
		defer func() {
			for _, k := range set {
				os.Unsetenv(k)
			}
		}()
		d := caseDir(c.ID, "")
		var o spec.C17Obs
		o.Gid = fmt.Sprint(os.Getgid())
		o.HostEnvLen = len(os.Environ())
		cfg := &plugin.ClientConfig{
			HandshakeConfig:     plugin.HandshakeConfig{MagicCookieKey: spec.CookieKey, MagicCookieValue: spec.CookieValue},
			AutoMTLS:            p.AutoMTLS,
			GRPCBrokerMultiplex: p.Mux,
			SkipHostEnv:         p.SkipHostEnv,
			MinPort:             p.MinPort,
			MaxPort:             p.MaxPort,
			StartTimeout:        5 * time.Second,
			Logger:              quietLogger(),
			AllowedProtocols:    []plugin.Protocol{plugin.ProtocolNetRPC, plugin.ProtocolGRPC},
		}
		hostSets(cfg, p.Sets)
		if p.Group || p.TempDir {
			cfg.UnixSocketConfig = &plugin.UnixSocketConfig{}
			if p.Group {
				cfg.UnixSocketConfig.Group = o.Gid
			}
			if p.TempDir {
				cfg.UnixSocketConfig.TempDir = d
				o.TempDir = d
			}
		}
		if p.E2E {
			// a real serving plugin; what matters is that the configured mode works
			cf := writeCfg(d, map[string]any{"versioned": map[string]string{"1": p.E2EProto, "2": p.E2EProto, "3": p.E2EProto, "0": p.E2EProto, "8": p.E2EProto, "10": p.E2EProto}})
			cfg.Cmd = exec.Command(pluginBin, cf)
			cfg.Cmd.Env = append([]string{"TMPDIR=" + d}, p.UserEnv...)
			for v, ps := range cfg.VersionedPlugins {
				cfg.VersionedPlugins[v] = vp.Set(p.E2EProto, v, []string{"kv"}, nil)
				_ = ps
			}
			if cfg.Plugins != nil {
				cfg.Plugins = vp.Set(p.E2EProto, int(cfg.ProtocolVersion), []string{"kv"}, nil)
			}
			cl := plugin.NewClient(cfg)
			_, err := cl.Start()
			o.StartErr = errStr(err)
			if err == nil {
				cp, err := cl.Client()
				o.ClientErr = errStr(err)
				if err == nil {
					ok, _, _ := within(20*time.Second, func() { o.PingErr = errStr(cp.Ping()) })
					if !ok {
						o.PingErr = "ping hung 20s"
					}
					ok, _, _ = within(20*time.Second, func() {
						raw, err := cp.Dispense("kv")
						if err != nil {
							o.CallErr = "dispense: " + err.Error()
							return
						}
						_, err = raw.(vp.Cli).Do("tag")
						o.CallErr = errStr(err)
					})
					if !ok {
						o.CallErr = "call hung 20s"
					}
				}
			}
			o.Captured = true
			within(30*time.Second, cl.Kill)
			e.Ret("h", "Start", o)
			return
		}
		if p.TwoClients && p.TwoConcurrent {
			var mu sync.Mutex
			cfg.SkipHostEnv = true
			secondPrepared := make(chan struct{})
			n := 0
			o.TwoLaunchDir, o.TwoLaunchSame = make([]string, 2), make([]bool, 2)
			sockDir := func(env []string) string {
				dir := "<unset>"
				for _, kv := range env {
					if v, ok := strings.CutPrefix(kv, "PLUGIN_UNIX_SOCKET_DIR="); ok {
						dir = v
					}
				}
				return dir
			}
			cfg.RunnerFunc = func(l hclog.Logger, cmd *exec.Cmd, tmp string) (runner.Runner, error) {
				mu.Lock()
				idx := n
				n++
				o.TwoTmp = append(o.TwoTmp, tmp)
				o.TwoEnvDir = append(o.TwoEnvDir, sockDir(cmd.Env))
				kept, snap := cmd.Env, append([]string(nil), cmd.Env...) // a runner that keeps what it was given
				mu.Unlock()
				if idx == 1 {
					close(secondPrepared)
				}
				return vp.NewScriptRunner(func(r *vp.ScriptRunner) {
					if idx == 0 {
						select {
						case <-secondPrepared:
						case <-time.After(5 * time.Second):
						}
					}
					mu.Lock()
					if idx < 2 {
						o.TwoLaunchDir[idx] = sockDir(kept)
						o.TwoLaunchSame[idx] = fmt.Sprint(kept) == fmt.Sprint(snap)
					}
					mu.Unlock()
					fmt.Fprintf(r.Out, "1|1|unix|%s|netrpc|\n", filepath.Join(tmp, "sock"))
					<-r.Done()
				}), nil
			}
			hostSets(cfg, "legacy1")
			cfg.ProtocolVersion, cfg.VersionedPlugins = 1, nil
			cfg.Plugins = vp.Set("netrpc", 1, []string{"kv"}, nil)
			a, b := plugin.NewClient(cfg), plugin.NewClient(cfg)
			errs := make([]string, 2)
			var wg sync.WaitGroup
			wg.Add(1)
			go func() { defer wg.Done(); _, err := a.Start(); errs[0] = errStr(err) }()
			for i := 0; i < 500; i++ {
				mu.Lock()
				k := n
				mu.Unlock()
				if k >= 1 {
					break
				}
				time.Sleep(10 * time.Millisecond)
			}
			_, err := b.Start()
			errs[1] = errStr(err)
			wg.Wait()
			o.TwoStartErr = errs
			within(30*time.Second, a.Kill)
			within(30*time.Second, b.Kill)
			o.Captured = true
			e.Ret("h", "Start", o)
			return
		}
		if p.TwoClients {
			var mu sync.Mutex
			cfg.RunnerFunc = func(l hclog.Logger, cmd *exec.Cmd, tmp string) (runner.Runner, error) {
				mu.Lock()
				o.TwoTmp = append(o.TwoTmp, tmp)
				dir := "<unset>"
				for _, kv := range cmd.Env {
					if v, ok := strings.CutPrefix(kv, "PLUGIN_UNIX_SOCKET_DIR="); ok {
						dir = v
					}
				}
				o.TwoEnvDir = append(o.TwoEnvDir, dir)
				mu.Unlock()
				return vp.NewScriptRunner(func(r *vp.ScriptRunner) {
					fmt.Fprintf(r.Out, "1|1|unix|%s|netrpc|\n", filepath.Join(tmp, "sock"))
					<-r.Done()
				}), nil
			}
			hostSets(cfg, "legacy1")
			cfg.ProtocolVersion, cfg.VersionedPlugins = 1, nil
			cfg.Plugins = vp.Set("netrpc", 1, []string{"kv"}, nil)
			a, b := plugin.NewClient(cfg), plugin.NewClient(cfg)
			exist := func() string {
				s := ""
				for i, d := range o.TwoTmp {
					if fi, err := os.Stat(d); err == nil && fi.IsDir() {
						s += string(rune('A' + i))
					}
				}
				return s
			}
			for _, cl := range []*plugin.Client{a, b} {
				_, err := cl.Start()
				o.TwoStartErr = append(o.TwoStartErr, errStr(err))
			}
			o.ExistBoth = exist()
			within(30*time.Second, a.Kill)
			o.ExistAfterA = exist()
			within(30*time.Second, b.Kill)
			o.ExistAfterB = exist()
			o.Captured = true
			e.Ret("h", "Start", o)
			return
		}
		runnerCalls := 0
		switch p.Launch {
		case "runner":
			cfg.RunnerFunc = func(l hclog.Logger, cmd *exec.Cmd, tmp string) (runner.Runner, error) {
				runnerCalls++
				if p.RetryStart && runnerCalls == 1 {
					return nil, errors.New("runner: sandbox not ready yet")
				}
				o.Env = append([]string(nil), cmd.Env...)
				o.StdinSame = cmd.Stdin == os.Stdin
				o.Captured = true
				return vp.NewScriptRunner(func(r *vp.ScriptRunner) { r.Exit() }), nil
			}
		default:
			cf := writeCfg(d, map[string]any{"mode": "raw", "envDumpTo": filepath.Join(d, "env.json"), "after": "exit"})
			cfg.Cmd = exec.Command(pluginBin, cf)
			cfg.Cmd.Env = append([]string(nil), p.UserEnv...)
			if p.UserEnvHost {
				cfg.Cmd.Env = append(os.Environ(), p.UserEnv...)
			}
		}
		cl := plugin.NewClient(cfg)
		_, err := cl.Start()
		if p.RetryStart && err != nil {
			_, err = cl.Start()
		}
		o.StartErr = errStr(err)
		within(30*time.Second, cl.Kill)
		if p.Launch != "runner" {
			// deferred reader above fills o; emit after it ran
			b, err := os.ReadFile(filepath.Join(d, "env.json"))
			if err == nil {
				var child struct {
					Env      []string
					StdinDev uint64
					StdinIno uint64
				}
				json.Unmarshal(b, &child)
				o.Env = child.Env
				var st syscall.Stat_t
				syscall.Fstat(0, &st)
				o.StdinSame = st.Dev == child.StdinDev && st.Ino == child.StdinIno
				o.Captured = true
			}
		}
		e.Ret("h", "Start", o)
	})
}
