package host

import (
	"crypto/tls"
	"encoding/hex"
	"os/exec"
	"strings"
	"testing"
	"time"

	hclog "github.com/hashicorp/go-hclog"
	plugin "github.com/hashicorp/go-plugin"
	"github.com/hashicorp/go-plugin/runner"
	"verif/spec"
	"verif/vp"
)

// c05Cause returns the raw stdout bytes, what the process does afterwards, an
// optional hook kill spec, and config tweaks.
func c05Cause(cause string, cfg *plugin.ClientConfig) (line string, after string, hook string) {
	after = "hang"
	switch cause {
	case "field-core":
		line = "2|1|tcp|127.0.0.1:1|netrpc\n"
	case "field-version":
		line = "1|9|tcp|127.0.0.1:1|netrpc\n"
	case "field-network":
		line = "1|1|udp|127.0.0.1:1|netrpc\n"
	case "field-address":
		line = "1|1|tcp|nohost|netrpc\n"
	case "field-protocol":
		cfg.AllowedProtocols = []plugin.Protocol{plugin.ProtocolNetRPC}
		line = "1|1|tcp|127.0.0.1:1|grpc\n"
	case "field-cert":
		cfg.TLSConfig = &tls.Config{ServerName: "localhost"}
		line = "1|1|tcp|127.0.0.1:1|netrpc|" + strings.Repeat("A", 64) + "\n"
	case "field-mux-absent":
		cfg.GRPCBrokerMultiplex = true
		line = "1|1|tcp|127.0.0.1:1|grpc|\n"
	case "field-mux-false":
		cfg.GRPCBrokerMultiplex = true
		line = "1|1|tcp|127.0.0.1:1|grpc||false\n"
	case "short":
		line = "1|1\n"
	case "garbage":
		line = "this is not a handshake\n"
	case "bad-then-more":
		line = "garbage first line\nsecond line\nthird line\n"
	case "bad-then-partial":
		line = "garbage first line\nunterminated tail"
	case "silence":
	case "partial-line":
		line = "1|1|tcp"
	case "exit-before-output":
		after = "exit"
	case "exit-after-garbage":
		line, after = "garbage\n", "exit"
	case "stdout-closed-alive":
		after = "closeStdout"
	case "partial-then-close":
		line, after = "1|1|tc", "closeStdout"
	case "crash-cookieOK":
		hook = "serve.cookieOK:kill:1"
	case "crash-listenerReady":
		hook = "serve.listenerReady:kill:1"
	}
	return
}

func TestC05(t *testing.T) {
	forCases(t, 16, func(c spec.Case, e Em) {
		var p spec.C05Case
		param(c, &p)
		cfg := baseClientConfig()
		cfg.StartTimeout = time.Duration(p.TimeoutMs) * time.Millisecond
		if p.TimeoutUs == 1 {
			cfg.StartTimeout = time.Nanosecond
		} else if p.TimeoutUs > 0 {
			cfg.StartTimeout = time.Duration(p.TimeoutUs) * time.Microsecond
		}
		hostSetFor(cfg, "netrpc")
		line, after, hook := c05Cause(p.Cause, cfg)
		var o spec.C05Obs
		var l *launched
		var sr *vp.ScriptRunner
		switch p.Launch {
		case "scripted":
			cfg.UnixSocketConfig = &plugin.UnixSocketConfig{TempDir: caseDir(c.ID, "h")}
			cfg.RunnerFunc = func(lg hclog.Logger, cmd *exec.Cmd, tmp string) (runner.Runner, error) {
				sr = vp.NewScriptRunner(func(r *vp.ScriptRunner) {
					time.Sleep(time.Duration(p.JitterMs) * time.Millisecond)
					r.Out.Write([]byte(line))
					switch after {
					case "exit":
						r.Exit()
					case "closeStdout":
						r.Out.Close()
					}
				})
				return sr, nil
			}
			l = &launched{Client: plugin.NewClient(cfg), HostDir: caseDir(c.ID, "h")}
		default:
			pcfg := map[string]any{"mode": "raw", "lineHex": hex.EncodeToString([]byte(line)), "after": after, "delayMs": p.JitterMs}
			var env []string
			if hook != "" {
				pcfg = pluginCfgFor("netrpc")
				env = append(env, "VERIF_HOOK="+hook)
			}
			pcfg["ctl"] = "" // no side channel needed
			l = prepare(c.ID, "", pcfg, cfg, p.Launch, env...)
		}
		e.Call("h", "Start", nil)
		startH := hangAfter(cfg.StartTimeout)
		if startH < 20*time.Second {
			startH = 20 * time.Second
		}
		ok, el, dump := within(startH, func() {
			_, err := l.Client.Start()
			o.StartErr = errStr(err)
		})
		o.StartReturned, o.StartMs = ok, el.Milliseconds()
		if !ok {
			o.Dump = trunc(dump, 5000)
		}
		if ok && o.StartErr != "" && c.ID%2 == 0 {
			// the host asks the failed client again before it gives up on it (Client() does the same)
			within(startH, func() { l.Client.Start() })
		}
		state := func() string {
			if sr != nil {
				if sr.Dead() {
					return "gone"
				}
				return "S"
			}
			return procState(l.pid())
		}
		o.Pid = l.pid()
		o.StateAtReturn = state()
		t0 := time.Now()
		for time.Since(t0) < 5*time.Second {
			st := state()
			if st != "nopid" && !terminated(st) {
				o.LiveSeen = true
			}
			if terminated(st) || (st == "nopid" && p.TimeoutUs > 0 && time.Since(t0) > 1500*time.Millisecond) {
				break
			}
			time.Sleep(10 * time.Millisecond)
		}
		if o.Pid == 0 {
			o.Pid = l.pid()
		}
		o.StateSoon, o.SoonMs = state(), time.Since(t0).Milliseconds()
		kok, kel, kdump := within(18*time.Second, l.Client.Kill)
		o.KillReturned, o.KillMs = kok, kel.Milliseconds()
		if !kok && o.Dump == "" {
			o.Dump = trunc(kdump, 5000)
		}
		o.StateAfter = state()
		o.Exited = l.Client.Exited()
		if sr != nil {
			o.RunnerKills = int(sr.Kills.Load())
			sr.Exit()
		} else if l.Proc != nil {
			o.RunnerKills = int(l.Proc.Kills.Load())
		}
		if p.Launch != "cmd" {
			o.HostDirLeft = listDir(l.HostDir)
		}
		if sr == nil {
			l.hardKill()
		}
		e.Ret("h", "Start", o)
	})
}
