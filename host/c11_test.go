package host

import (
	"bytes"
	"errors"
	"fmt"
	"io"
	"strings"
	"sync/atomic"
	"testing"
	"time"

	plugin "github.com/hashicorp/go-plugin"
	"verif/spec"
	"verif/vp"
)

func c11Check(exp, got []byte, s *spec.C11Stream, other byte) {
	s.Expected, s.Received = int64(len(exp)), int64(len(got))
	s.FirstDiff, s.IsPrefix = -1, true
	n := len(got)
	if n > len(exp) {
		n = len(exp)
	}
	if !bytes.Equal(exp[:n], got[:n]) {
		for i := 0; i < n; i++ {
			if exp[i] != got[i] {
				s.FirstDiff = int64(i)
				break
			}
		}
		s.IsPrefix = false
	} else if len(got) > len(exp) {
		s.FirstDiff, s.IsPrefix = int64(len(exp)), false
	}
	if !s.IsPrefix {
		i := int(s.FirstDiff)
		lo, hi := i-8, i+24
		if lo < 0 {
			lo = 0
		}
		he, hg := hi, hi
		if he > len(exp) {
			he = len(exp)
		}
		if hg > len(got) {
			hg = len(got)
		}
		s.Context = fmt.Sprintf("at %d: expected %x, received %x", i, exp[lo:he], got[lo:hg])
		if i < len(got) && got[i] == other {
			s.CrossTag = true
		}
	}
}

// flakyWriter refuses (mode "err") or half-accepts (mode "short") every third Write call.
type flakyWriter struct {
	lockedBuf
	mode     string
	calls    int
	offered  atomic.Int64
	refusals atomic.Int32
}

func (f *flakyWriter) Write(p []byte) (int, error) {
	f.offered.Add(int64(len(p)))
	f.mu.Lock()
	f.calls++
	refuse := f.calls%3 == 0 && len(p) > 0
	f.mu.Unlock()
	if !refuse {
		return f.lockedBuf.Write(p)
	}
	f.refusals.Add(1)
	if f.mode == "short" {
		k := len(p) / 2
		f.lockedBuf.Write(p[:k])
		return k, io.ErrShortWrite
	}
	return 0, errors.New("sync writer: temporarily unavailable")
}

func isSubseq(sub, full []byte) bool {
	j := 0
	for i := 0; i < len(full) && j < len(sub); i++ {
		if full[i] == sub[j] {
			j++
		}
	}
	return j == len(sub)
}

func toPlan(p spec.C11Plan) map[string]any {
	var fs []map[string]any
	for _, f := range p.Frames {
		fs = append(fs, map[string]any{"s": f.Stream, "n": f.Len, "g": f.GapUs})
	}
	return map[string]any{"seed": p.Seed, "frames": fs}
}

func TestC11(t *testing.T) {
	plugin.VerifSetHook(vp.Jitter(seedEnv(), 500, &routeHooks, "grpcstdio.chunkRead", "grpcstdio.beforeSend"))
	forCases(t, 12, func(c spec.Case, e Em) {
		var p spec.C11Case
		param(c, &p)
		var o spec.C11Obs
		wire, mux := p.Proto, false
		if p.Proto == "grpcmux" {
			wire, mux = "grpc", true
		}
		var out, errb lockedBuf
		cfg := baseClientConfig()
		cfg.GRPCBrokerMultiplex = mux
		cfg.SyncStdout, cfg.SyncStderr = &out, &errb
		var flaky *flakyWriter
		fmode, fstream, _ := strings.Cut(p.FlakyWriter, ":")
		if p.FlakyWriter != "" {
			flaky = &flakyWriter{mode: fmode}
			if fstream == "o" {
				cfg.SyncStdout = flaky
			} else {
				cfg.SyncStderr = flaky
			}
		}
		// what each stream's writer took so far, and how much was handed to it
		outBytes := func() []byte {
			if flaky != nil && fstream == "o" {
				return flaky.Bytes()
			}
			return out.Bytes()
		}
		errBytes := func() []byte {
			if flaky != nil && fstream == "e" {
				return flaky.Bytes()
			}
			return errb.Bytes()
		}
		handed := func(s string) int64 {
			if flaky != nil && fstream == s {
				return flaky.offered.Load()
			}
			if s == "o" {
				return int64(len(out.Bytes()))
			}
			return int64(len(errb.Bytes()))
		}
		hostSetFor(cfg, wire)
		pcfg := pluginCfgFor(wire)
		env := []string{}
		if p.PluginHook != "" {
			env = append(env, "VERIF_HOOK="+p.PluginHook)
		}
		if len(p.Pre.Frames) > 0 {
			pcfg["preWrite"] = toPlan(p.Pre)
		}
		l := prepare(c.ID, "", pcfg, cfg, "cmd", env...)
		defer l.hardKill()
		expO, expE := spec.ExpectedStream(&p, "o"), spec.ExpectedStream(&p, "e")
		fail := func(s string, err error) {
			o.SetupErr = s + ": " + err.Error()
			e.Ret("h", "stdio", o)
		}
		if _, err := l.Client.Start(); err != nil {
			fail("start", err)
			return
		}
		time.Sleep(time.Duration(p.ClientDelayMs) * time.Millisecond)
		cp, err := l.Client.Client()
		if err != nil {
			fail("client", err)
			return
		}
		raw, err := cp.Dispense("kv")
		if err != nil {
			fail("dispense", err)
			return
		}
		cli := raw.(vp.Cli)
		var stop atomic.Bool
		trafficDone := make(chan struct{})
		go func() {
			defer close(trafficDone)
			for p.Traffic && !stop.Load() {
				if _, err := cli.Do("big", "n", 2000); err != nil {
					return
				}
			}
		}()
		// snapshots: at any instant what arrived must be a prefix of what was written
		snapDone := make(chan struct{})
		prefixOK := atomic.Bool{}
		prefixOK.Store(true)
		var snaps atomic.Int32
		go func() {
			defer close(snapDone)
			for !stop.Load() {
				var so, se spec.C11Stream
				c11Check(expO, outBytes(), &so, 'E')
				c11Check(expE, errBytes(), &se, 'O')
				if flaky != nil && fstream == "o" {
					so.IsPrefix = true
				}
				if flaky != nil && fstream == "e" {
					se.IsPrefix = true
				}
				if !so.IsPrefix || !se.IsPrefix {
					prefixOK.Store(false)
				}
				snaps.Add(1)
				time.Sleep(20 * time.Millisecond)
			}
		}()
		e.Call("h", "write", nil)
		if len(p.Main.Frames) > 0 {
			if p.ViaRPC {
				_, err = cli.Do("write", "plan", toPlan(p.Main))
			} else {
				_, err = l.ctl("write", "plan", toPlan(p.Main))
			}
			o.WriteErr = errStr(err)
		}
		// the plugin acknowledged its last write: wait (bounded) for delivery
		t0 := time.Now()
		for time.Since(t0) < 15*time.Second {
			if handed("o") >= int64(len(expO)) && handed("e") >= int64(len(expE)) {
				break
			}
			time.Sleep(10 * time.Millisecond)
		}
		o.WaitMs = time.Since(t0).Milliseconds()
		if m, err := l.ctl("written"); err == nil {
			o.Out.Written, o.Err.Written = int64(vp.Int(m, "o")), int64(vp.Int(m, "e"))
		}
		time.Sleep(50 * time.Millisecond) // anything duplicated would trail in now
		stop.Store(true)
		<-snapDone
		<-trafficDone
		w0, w1 := o.Out.Written, o.Err.Written
		c11Check(expO, outBytes(), &o.Out, 'E')
		c11Check(expE, errBytes(), &o.Err, 'O')
		o.Out.Written, o.Err.Written = w0, w1
		if flaky != nil {
			fs, exp := &o.Out, expO
			if fstream == "e" {
				fs, exp = &o.Err, expE
			}
			fs.Flaky, fs.Offered, fs.Refusals = true, flaky.offered.Load(), int(flaky.refusals.Load())
			fs.NotSubseq = !isSubseq(flaky.Bytes(), exp)
		}
		if !prefixOK.Load() {
			o.Out.IsPrefix = o.Out.IsPrefix && false
		}
		o.Snapshots = int(snaps.Load())
		o.Alive = cp.Ping() == nil
		within(20*time.Second, l.Client.Kill)
		e.Ret("h", "stdio", o)
	})
}
