package host

import (
	"bytes"
	"fmt"
	"sync/atomic"
	"testing"
	"time"

	plugin "github.com/hashicorp/go-plugin"
	"verif/spec"
	"verif/vp"
)

func c11Check(exp, got []byte, s *spec.C11Stream, other byte) {
	s.Expected, s.Received = int64(len(exp)), int64(len(got))
	s.FirstDiff, s.IsPrefix = -1, true
	n := len(got)
	if n > len(exp) {
		n = len(exp)
	}
	if !bytes.Equal(exp[:n], got[:n]) {
		for i := 0; i < n; i++ {
			if exp[i] != got[i] {
				s.FirstDiff = int64(i)
				break
			}
		}
		s.IsPrefix = false
	} else if len(got) > len(exp) {
		s.FirstDiff, s.IsPrefix = int64(len(exp)), false
	}
	if !s.IsPrefix {
		i := int(s.FirstDiff)
		lo, hi := i-8, i+24
		if lo < 0 {
			lo = 0
		}
		he, hg := hi, hi
		if he > len(exp) {
			he = len(exp)
		}
		if hg > len(got) {
			hg = len(got)
		}
		s.Context = fmt.Sprintf("at %d: expected %x, received %x", i, exp[lo:he], got[lo:hg])
		if i < len(got) && got[i] == other {
			s.CrossTag = true
		}
	}
}

func toPlan(p spec.C11Plan) map[string]any {
	var fs []map[string]any
	for _, f := range p.Frames {
		fs = append(fs, map[string]any{"s": f.Stream, "n": f.Len, "g": f.GapUs})
	}
	return map[string]any{"seed": p.Seed, "frames": fs}
}

func TestC11(t *testing.T) {
	plugin.VerifSetHook(vp.Jitter(seedEnv(), 500, &routeHooks, "grpcstdio.chunkRead", "grpcstdio.beforeSend"))
	forCases(t, 12, func(c spec.Case, e Em) {
		var p spec.C11Case
		param(c, &p)
		var o spec.C11Obs
		wire, mux := p.Proto, false
		if p.Proto == "grpcmux" {
			wire, mux = "grpc", true
		}
		var out, errb lockedBuf
		cfg := baseClientConfig()
		cfg.GRPCBrokerMultiplex = mux
		cfg.SyncStdout, cfg.SyncStderr = &out, &errb
		hostSetFor(cfg, wire)
		pcfg := pluginCfgFor(wire)
		env := []string{}
		if p.PluginHook != "" {
			env = append(env, "VERIF_HOOK="+p.PluginHook)
		}
		if len(p.Pre.Frames) > 0 {
			pcfg["preWrite"] = toPlan(p.Pre)
		}
		l := prepare(c.ID, "", pcfg, cfg, "cmd", env...)
		defer l.hardKill()
		expO, expE := spec.ExpectedStream(&p, "o"), spec.ExpectedStream(&p, "e")
		fail := func(s string, err error) {
			o.SetupErr = s + ": " + err.Error()
			e.Ret("h", "stdio", o)
		}
		if _, err := l.Client.Start(); err != nil {
			fail("start", err)
			return
		}
		time.Sleep(time.Duration(p.ClientDelayMs) * time.Millisecond)
		cp, err := l.Client.Client()
		if err != nil {
			fail("client", err)
			return
		}
		raw, err := cp.Dispense("kv")
		if err != nil {
			fail("dispense", err)
			return
		}
		cli := raw.(vp.Cli)
		var stop atomic.Bool
		trafficDone := make(chan struct{})
		go func() {
			defer close(trafficDone)
			for p.Traffic && !stop.Load() {
				if _, err := cli.Do("big", "n", 2000); err != nil {
					return
				}
			}
		}()
		// snapshots: at any instant what arrived must be a prefix of what was written
		snapDone := make(chan struct{})
		prefixOK := atomic.Bool{}
		prefixOK.Store(true)
		var snaps atomic.Int32
		go func() {
			defer close(snapDone)
			for !stop.Load() {
				var so, se spec.C11Stream
				c11Check(expO, out.Bytes(), &so, 'E')
				c11Check(expE, errb.Bytes(), &se, 'O')
				if !so.IsPrefix || !se.IsPrefix {
					prefixOK.Store(false)
				}
				snaps.Add(1)
				time.Sleep(20 * time.Millisecond)
			}
		}()
		e.Call("h", "write", nil)
		if len(p.Main.Frames) > 0 {
			if p.ViaRPC {
				_, err = cli.Do("write", "plan", toPlan(p.Main))
			} else {
				_, err = l.ctl("write", "plan", toPlan(p.Main))
			}
			o.WriteErr = errStr(err)
		}
		// the plugin acknowledged its last write: wait (bounded) for delivery
		t0 := time.Now()
		for time.Since(t0) < 15*time.Second {
			if int64(len(out.Bytes())) >= int64(len(expO)) && int64(len(errb.Bytes())) >= int64(len(expE)) {
				break
			}
			time.Sleep(10 * time.Millisecond)
		}
		o.WaitMs = time.Since(t0).Milliseconds()
		if m, err := l.ctl("written"); err == nil {
			o.Out.Written, o.Err.Written = int64(vp.Int(m, "o")), int64(vp.Int(m, "e"))
		}
		time.Sleep(50 * time.Millisecond) // anything duplicated would trail in now
		stop.Store(true)
		<-snapDone
		<-trafficDone
		w0, w1 := o.Out.Written, o.Err.Written
		c11Check(expO, out.Bytes(), &o.Out, 'E')
		c11Check(expE, errb.Bytes(), &o.Err, 'O')
		o.Out.Written, o.Err.Written = w0, w1
		if !prefixOK.Load() {
			o.Out.IsPrefix = o.Out.IsPrefix && false
		}
		o.Snapshots = int(snaps.Load())
		o.Alive = cp.Ping() == nil
		within(20*time.Second, l.Client.Kill)
		e.Ret("h", "stdio", o)
	})
}
