package host

import (
	"context"
	"fmt"
	"net"
	"os"
	"path/filepath"
	"strings"
	"sync"
	"sync/atomic"
	"testing"
	"time"

	plugin "github.com/hashicorp/go-plugin"
	"google.golang.org/grpc"
	"verif/spec"
	"verif/vp"
)

// c18Unblock: when armed, the host-side blocked listener of a multiplexed brokered server is held at the
// moment a knock has unblocked it (hook point grpcmux.client.unblocked), before it goes to fetch the stream,
// until released: Kill arrives in between.
var c18Unblock struct {
	mu       sync.Mutex
	armed    bool
	hit      chan struct{}
	released chan struct{}
}

var c18SendDelay atomic.Int32 // >0 while a case announces listeners across its Kill

func TestC18(t *testing.T) {
	plugin.VerifSetHook(func(name string, id uint32) {
		if name == "grpcbroker.stream.sending" && c18SendDelay.Load() > 0 {
			// while listeners are being announced across a Kill: widen the moment in which a message is
			// between the send queue and the wire
			time.Sleep(2 * time.Millisecond)
			return
		}
		if name != "grpcmux.client.unblocked" {
			return
		}
		c18Unblock.mu.Lock()
		armed, hit, rel := c18Unblock.armed, c18Unblock.hit, c18Unblock.released
		c18Unblock.armed = false
		c18Unblock.mu.Unlock()
		if !armed {
			return
		}
		close(hit)
		select {
		case <-rel:
		case <-time.After(20 * time.Second):
		}
	})
	// one case at a time per host process: goroutines are attributed by before/after counts
	forCases(t, 1, func(c spec.Case, e Em) {
		var p spec.C18Case
		param(c, &p)
		var o spec.C18Obs
		wire, mux := p.Proto, false
		if p.Proto == "grpcmux" {
			wire, mux = "grpc", true
		}
		if p.TestMode != "" {
			c18TestMode(c, p, wire, mux, e)
			return
		}
		time.Sleep(100 * time.Millisecond)
		o.GoBefore, o.TotalBefore, _ = pluginGoroutines()
		tmpBefore := map[string]bool{}
		for _, f := range topLevelPluginSockets(os.TempDir()) {
			tmpBefore[f] = true
		}
		cfg := baseClientConfig()
		cfg.GRPCBrokerMultiplex = mux
		cfg.AutoMTLS = p.TLS == "auto"
		var out, errb lockedBuf
		cfg.SyncStdout, cfg.SyncStderr = &out, &errb
		hostSetFor(cfg, wire)
		pcfg := pluginCfgFor(wire)
		pcfg["exitDelayMs"] = p.ExitMs
		l := prepare(c.ID, "", pcfg, cfg, p.Launch)
		defer l.hardKill()
		done := func() { e.Ret("h", "shutdown", o) }
		cp, err := l.Client.Client()
		if err != nil {
			o.SetupErr = err.Error()
			done()
			return
		}
		raw, err := cp.Dispense("kv")
		if err != nil {
			o.SetupErr = err.Error()
			done()
			return
		}
		cli := raw.(vp.Cli)
		var conns []*grpc.ClientConn
		var handles []*vp.AcceptHandle
		var userListeners []net.Listener
		releaseUnblock := func() {}
		id := uint32(300)
		for _, st := range p.Steps {
			id++
			var serr error
			switch st {
			case "dispense":
				var r2 interface{}
				r2, serr = cp.Dispense("kv")
				if serr == nil {
					_, serr = r2.(vp.Cli).Do("tag")
				}
			case "call":
				_, serr = cli.Do("big", "n", 5000)
			case "stdio":
				_, serr = cli.Do("write", "plan", map[string]any{"seed": 3, "frames": []map[string]any{{"s": "o", "n": 2000}, {"s": "e", "n": 500}}})
			case "h2p": // plugin accepts, host dials
				switch x := cli.(type) {
				case *vp.RPCCli:
					ch := make(chan error, 1)
					go func() { _, err := cli.Do("mux-accept", "id", id, "nonce", "p", "len", 100); ch <- err }()
					_, serr = vp.MuxDial(x.Broker, id, "h", 100)
					if e2 := <-ch; serr == nil {
						serr = e2
					}
				case *vp.GRPCCli:
					if _, serr = cli.Do("grpc-accept", "id", id, "nonce", "p"); serr == nil {
						r := vp.GRPCDialPing(x.Broker, id, 20*time.Second, false)
						if r.DialErr != "" || r.PingErr != "" {
							serr = fmt.Errorf("%s%s", r.DialErr, r.PingErr)
						}
						if r.Conn() != nil {
							conns = append(conns, r.Conn())
						}
					}
				}
			case "p-accept-open": // the plugin accepts a brokered listener and keeps it open until it exits
				if _, isGRPC := cli.(*vp.GRPCCli); isGRPC {
					_, serr = cli.Do("grpc-accept-raw", "id", id)
				}
			case "p2h-kill-at-unblock": // (multiplexing) Kill arrives when a knock has just unblocked a host-side listener
				if x, isGRPC := cli.(*vp.GRPCCli); isGRPC && mux {
					h := vp.GRPCAcceptServe(x.Broker, id, "h")
					handles = append(handles, h)
					c18Unblock.mu.Lock()
					c18Unblock.armed, c18Unblock.hit, c18Unblock.released = true, make(chan struct{}), make(chan struct{})
					hit, rel := c18Unblock.hit, c18Unblock.released
					c18Unblock.mu.Unlock()
					releaseUnblock = func() { close(rel) }
					go cli.Do("grpc-dial", "id", id, "timeoutMs", 3000)
					select {
					case <-hit:
					case <-time.After(5 * time.Second):
						serr = fmt.Errorf("the knock never unblocked the host-side listener")
					}
				}
			case "h-accept-undialled": // the host accepts a brokered id that the plugin never dials; Kill comes inside its window
				switch x := cli.(type) {
				case *vp.RPCCli:
					go x.Broker.Accept(id)
				case *vp.GRPCCli:
					// (a listener handed to the user is the user's to close: done right after Kill)
					if ln, err := x.Broker.Accept(id); err == nil {
						userListeners = append(userListeners, ln)
					}
				}
				time.Sleep(50 * time.Millisecond)
			case "p-accept-twice": // the plugin announces one brokered id twice and nobody ever dials it
				if _, isGRPC := cli.(*vp.GRPCCli); isGRPC {
					_, serr = cli.Do("grpc-accept-twice", "id", id)
				}
			case "p-accept-storm": // plugin code keeps announcing brokered servers in the background, across the shutdown
				if _, isGRPC := cli.(*vp.GRPCCli); isGRPC {
					_, serr = cli.Do("grpc-accept-storm")
					time.Sleep(100 * time.Millisecond)
				}
			case "p2h": // host accepts, plugin dials
				switch x := cli.(type) {
				case *vp.RPCCli:
					ch := make(chan error, 1)
					go func() { _, err := vp.MuxAccept(x.Broker, id, "h", 100); ch <- err }()
					_, serr = cli.Do("mux-dial", "id", id, "nonce", "p", "len", 100)
					if e2 := <-ch; serr == nil {
						serr = e2
					}
				case *vp.GRPCCli:
					h := vp.GRPCAcceptServe(x.Broker, id, "h")
					handles = append(handles, h)
					_, serr = cli.Do("grpc-dial", "id", id, "timeoutMs", 20000)
				}
			}
			if serr != nil {
				o.StepErrs = append(o.StepErrs, st+": "+serr.Error())
			}
		}
		// the harness closes what the API makes the user own: connections it dialled
		if !p.KeepConns {
			for _, cc := range conns {
				cc.Close()
			}
		}
		_ = handles // servers started with AcceptAndServe are go-plugin's to stop when the broker closes
		// optionally, host goroutines keep announcing brokered listeners while Kill runs
		stopStorm := make(chan struct{})
		var stormWG sync.WaitGroup
		if g, isGRPC := cli.(*vp.GRPCCli); isGRPC && p.KillRacesAccepts && !mux {
			c18SendDelay.Add(1)
			defer c18SendDelay.Add(-1)
			for i := 0; i < 8; i++ {
				stormWG.Add(1)
				go func() {
					defer stormWG.Done()
					for {
						select {
						case <-stopStorm:
							return
						default:
						}
						ln, err := g.Broker.Accept(g.Broker.NextId())
						if err != nil {
							return // the broker has been closed: a well-behaved user stops here
						}
						ln.Close()
					}
				}()
			}
			time.Sleep(time.Duration(5+c.ID%40) * time.Millisecond)
		}
		ok, _, _ := within(30*time.Second, l.Client.Kill)
		close(stopStorm)
		stormWG.Wait()
		for _, ln := range userListeners {
			ln.Close()
		}
		releaseUnblock()
		o.KillReturned = ok
		if p.KeepConns {
			for _, cc := range conns {
				cc.Close()
			}
		}
		_, merr := os.Stat(l.Marker)
		o.Marker = merr == nil
		// leftovers
		for _, f := range listDir(l.Dir) {
			if strings.HasPrefix(f, "s:") && !strings.HasSuffix(f, "ctl.sock") || strings.Contains(f, "plugin-dir") {
				o.PluginDirLeft = append(o.PluginDirLeft, f)
			}
		}
		o.HostDirLeft = listDir(l.HostDir)
		for _, f := range topLevelPluginSockets(os.TempDir()) {
			if !tmpBefore[f] {
				o.HostTmpLeft = append(o.HostTmpLeft, f)
			}
		}
		// goroutines: poll until back to the level before the case, up to 10 s
		t0 := time.Now()
		for {
			n, total, sample := pluginGoroutines()
			o.GoAfter, o.TotalAfter, o.GoSample = n, total, trunc(sample, 2500)
			if n <= o.GoBefore || time.Since(t0) > 10*time.Second {
				break
			}
			time.Sleep(100 * time.Millisecond)
		}
		o.GoWaitMs = time.Since(t0).Milliseconds()
		if o.GoAfter <= o.GoBefore {
			o.GoSample = ""
		}
		done()
	})
}

// c18TestMode: a test-mode server in this process, cancelled after nobody / one client connected. Runs in a
// host child of its own (it sets PLUGIN_* variables in the process environment).
func c18TestMode(c spec.Case, p spec.C18Case, wire string, mux bool, e Em) {
	var o spec.C18Obs
	d := caseDir(c.ID, "tm")
	sd := filepath.Join(d, "sock")
	os.MkdirAll(sd, 0o755)
	os.Setenv("PLUGIN_UNIX_SOCKET_DIR", sd)
	if mux {
		os.Setenv("PLUGIN_MULTIPLEX_GRPC", "true")
	}
	defer os.Unsetenv("PLUGIN_UNIX_SOCKET_DIR")
	defer os.Unsetenv("PLUGIN_MULTIPLEX_GRPC")
	time.Sleep(100 * time.Millisecond)
	o.GoBefore, o.TotalBefore, _ = pluginGoroutines()
	ctx, cancel := context.WithCancel(context.Background())
	rch := make(chan *plugin.ReattachConfig, 1)
	closeCh := make(chan struct{})
	sc := &plugin.ServeConfig{
		HandshakeConfig: plugin.HandshakeConfig{ProtocolVersion: 1, MagicCookieKey: spec.CookieKey, MagicCookieValue: spec.CookieValue},
		Plugins:         vp.Set(wire, 1, []string{"kv"}, vp.NewCore()),
		Logger:          quietLogger(),
		Test:            &plugin.ServeTestConfig{Context: ctx, ReattachConfigCh: rch, CloseCh: closeCh},
	}
	if wire == "grpc" {
		sc.GRPCServer = plugin.DefaultGRPCServer
	}
	go plugin.Serve(sc)
	var rc *plugin.ReattachConfig
	select {
	case rc = <-rch:
	case <-time.After(15 * time.Second):
		o.SetupErr = "test-mode server did not send a reattach config"
		e.Ret("h", "shutdown", o)
		return
	}
	if p.TestMode == "connect" && !mux { // (reattach is not supported with multiplexing)
		cfg := baseClientConfig()
		hostSetFor(cfg, wire)
		cfg.Reattach = rc
		cl := plugin.NewClient(cfg)
		if cp, err := cl.Client(); err != nil {
			o.StepErrs = append(o.StepErrs, "reattach: "+err.Error())
		} else if raw, err := cp.Dispense("kv"); err != nil {
			o.StepErrs = append(o.StepErrs, "dispense: "+err.Error())
		} else if _, err := raw.(vp.Cli).Do("tag"); err != nil {
			o.StepErrs = append(o.StepErrs, "call: "+err.Error())
		}
		within(20*time.Second, cl.Kill)
	}
	t0 := time.Now()
	cancel()
	select {
	case <-closeCh:
		o.CloseChMs = time.Since(t0).Milliseconds()
	case <-time.After(40 * time.Second):
		o.CloseChMs = -1
	}
	o.KillReturned, o.Marker = true, o.CloseChMs >= 0
	for _, f := range listDir(sd) {
		o.PluginDirLeft = append(o.PluginDirLeft, f)
	}
	tg := time.Now()
	for {
		n, total, sample := pluginGoroutines()
		o.GoAfter, o.TotalAfter, o.GoSample = n, total, trunc(sample, 2500)
		if n <= o.GoBefore || time.Since(tg) > 10*time.Second {
			break
		}
		time.Sleep(100 * time.Millisecond)
	}
	o.GoWaitMs = time.Since(tg).Milliseconds()
	if o.GoAfter <= o.GoBefore {
		o.GoSample = ""
	}
	e.Ret("h", "shutdown", o)
}

// topLevelPluginSockets lists plugin* socket files directly inside dir (where
// host-side brokered listeners of Cmd-launched clients are created).
func topLevelPluginSockets(dir string) []string {
	ents, _ := os.ReadDir(dir)
	var out []string
	for _, e := range ents {
		if strings.HasPrefix(e.Name(), "plugin") && e.Type()&os.ModeSocket != 0 {
			out = append(out, e.Name())
		}
	}
	return out
}
