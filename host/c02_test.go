package host

import (
	"bufio"
	"fmt"
	"os"
	"os/exec"
	"path/filepath"
	"strconv"
	"syscall"
	"testing"
	"time"

	plugin "github.com/hashicorp/go-plugin"
	"verif/spec"
	"verif/vp"
)

func c02PluginCfg(p spec.C02Case) map[string]any { return c02PluginCfgSide(p, p.Plugin) }

func c02PluginCfgSide(p spec.C02Case, side spec.C02Side) map[string]any {
	pc := map[string]any{}
	ver := map[string]string{}
	for _, v := range side.Versioned {
		ver[strconv.Itoa(v)] = p.Proto[strconv.Itoa(v)]
	}
	if len(ver) > 0 {
		pc["versioned"] = ver
	}
	if side.Legacy != nil {
		pc["legacy"] = map[string]any{"version": *side.Legacy, "proto": p.Proto[strconv.Itoa(*side.Legacy)]}
	}
	return pc
}

func TestC02(t *testing.T) {
	forCases(t, 16, func(c spec.Case, e Em) {
		var p spec.C02Case
		param(c, &p)
		var o spec.C02Obs
		cfg := baseClientConfig()
		cfg.StartTimeout = 8 * time.Second
		if len(p.Host.Versioned) > 0 {
			cfg.VersionedPlugins = map[int]plugin.PluginSet{}
			for _, v := range p.Host.Versioned {
				cfg.VersionedPlugins[v] = vp.Set(p.Proto[strconv.Itoa(v)], v, []string{"kv"}, nil)
			}
		}
		if p.Host.Legacy != nil {
			v := *p.Host.Legacy
			cfg.ProtocolVersion = uint(v)
			cfg.Plugins = vp.Set(p.Proto[strconv.Itoa(v)], v, []string{"kv"}, nil)
		}
		if p.Host.HandshakeOnly != nil {
			cfg.ProtocolVersion = uint(*p.Host.HandshakeOnly)
		}
		if p.Host.Overlap != nil && p.Host.OverlapSetOf != nil {
			cfg.ProtocolVersion = uint(*p.Host.Overlap)
			cfg.Plugins = cfg.VersionedPlugins[*p.Host.OverlapSetOf]
		}
		pcfg := c02PluginCfg(p)
		pcfg["ctl"] = ""
		l := prepare(c.ID, "", pcfg, cfg, "cmd")
		pcfg["envDumpTo"] = filepath.Join(l.Dir, "env.json")
		writeCfg(l.Dir, pcfg)
		e.Call("h", "Start", nil)
		ok, _, _ := within(30*time.Second, func() {
			_, err := l.Client.Start()
			o.StartErr = errStr(err)
			if err != nil {
				return
			}
			o.Negotiated = l.Client.NegotiatedVersion()
			o.Protocol = string(l.Client.Protocol())
			cp, err := l.Client.Client()
			if err != nil {
				o.CallErr = "client: " + err.Error()
				return
			}
			raw, err := cp.Dispense("kv")
			if err != nil {
				o.CallErr = "dispense: " + err.Error()
				return
			}
			cli := raw.(vp.Cli)
			o.HostTag = cli.HostTag()
			m, err := cli.Do("tag")
			if err != nil {
				o.CallErr = "call: " + err.Error()
				return
			}
			o.PluginTag = vp.Str(m, "label")
		})
		if !ok {
			o.CallErr = "hung 30s"
		}
		o.Pid = l.pid()
		if o.StartErr != "" {
			o.StateSoon = waitState(o.Pid, 5*time.Second, "gone", "Z")
		}
		within(30*time.Second, l.Client.Kill)
		l.hardKill()
		// a direct run of the same plugin binary/config to see the raw handshake line
		if p.EnvRaw != "" {
			cmd := exec.Command(pluginBin, filepath.Join(l.Dir, "cfg.json"))
			cmd.Env = []string{"TMPDIR=" + l.Dir, spec.CookieKey + "=" + spec.CookieValue}
			if p.EnvRaw != "<unset>" {
				cmd.Env = append(cmd.Env, "PLUGIN_PROTOCOL_VERSIONS="+p.EnvRaw)
			}
			out, err := cmd.StdoutPipe()
			if err == nil {
				err = cmd.Start()
			}
			if err != nil {
				o.RawErr = err.Error()
			} else {
				done := make(chan struct{})
				go func() {
					defer close(done)
					sc := bufio.NewScanner(out)
					if sc.Scan() {
						o.RawLine = sc.Text()
					}
				}()
				select {
				case <-done:
				case <-time.After(10 * time.Second):
					o.RawErr = "no line within 10s"
				}
				syscall.Kill(cmd.Process.Pid, syscall.SIGKILL)
				cmd.Wait()
			}
		}
		_ = os.Getpid
		_ = fmt.Sprint
		if p.Plugin2 != nil {
			// the same *ClientConfig object used for another launch (a supervisor restarting or upgrading
			// its plugin): only the command changes
			var o2 spec.C02Obs
			pcfg2 := c02PluginCfgSide(p, *p.Plugin2)
			pcfg2["ctl"] = ""
			l2 := prepare(c.ID, "second", pcfg2, cfg, "cmd")
			ok, _, _ := within(30*time.Second, func() {
				_, err := l2.Client.Start()
				o2.StartErr = errStr(err)
				if err != nil {
					return
				}
				o2.Negotiated = l2.Client.NegotiatedVersion()
				o2.Protocol = string(l2.Client.Protocol())
				cp, err := l2.Client.Client()
				if err != nil {
					o2.CallErr = "client: " + err.Error()
					return
				}
				raw, err := cp.Dispense("kv")
				if err != nil {
					o2.CallErr = "dispense: " + err.Error()
					return
				}
				cli := raw.(vp.Cli)
				o2.HostTag = cli.HostTag()
				m, err := cli.Do("tag")
				if err != nil {
					o2.CallErr = "call: " + err.Error()
					return
				}
				o2.PluginTag = vp.Str(m, "label")
			})
			if !ok {
				o2.CallErr = "hung 30s"
			}
			o2.Pid = l2.pid()
			if o2.StartErr != "" {
				o2.StateSoon = waitState(o2.Pid, 5*time.Second, "gone", "Z")
			}
			within(30*time.Second, l2.Client.Kill)
			l2.hardKill()
			o.Second = &o2
		}
		e.Ret("h", "Start", o)
	})
}
