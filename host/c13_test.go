package host

import (
	"crypto/md5"
	"crypto/sha1"
	"crypto/sha256"
	"crypto/sha512"
	"errors"
	"fmt"
	"hash"
	"os"
	"os/exec"
	"path/filepath"
	"strconv"
	"strings"
	"sync"
	"sync/atomic"
	"syscall"
	"testing"
	"time"

	hclog "github.com/hashicorp/go-hclog"
	plugin "github.com/hashicorp/go-plugin"
	"github.com/hashicorp/go-plugin/runner"
	"verif/spec"
	"verif/vp"
)

// cmdrunnerLike wraps a command in the harness's process runner.
func cmdrunnerLike(cmd *exec.Cmd) (runner.Runner, error) {
	return vp.NewProcRunner(cmd, cmd.Path)
}

// sessionHash makes one hash object safe to share between clients that verify at the same time: Reset
// starts a session (takes the lock), Sum ends it. Writes are slow, so that sessions really overlap.
type sessionHash struct {
	hash.Hash
	mu sync.Mutex
}

func (s *sessionHash) Reset() { s.mu.Lock(); s.Hash.Reset() }
func (s *sessionHash) Write(b []byte) (int, error) {
	time.Sleep(20 * time.Millisecond)
	return s.Hash.Write(b)
}
func (s *sessionHash) Sum(b []byte) []byte { defer s.mu.Unlock(); return s.Hash.Sum(b) }

func newHash(n string) hash.Hash {
	switch n {
	case "sha256":
		return sha256.New()
	case "sha512":
		return sha512.New()
	case "sha1":
		return sha1.New()
	case "md5":
		return md5.New()
	}
	return nil
}

// writeExec writes a file that is going to be executed. No fork may happen while the file is open for
// writing: a child forked (by another case's Start in this process) in that window holds the write
// descriptor until its exec, and an exec of the file meanwhile fails with ETXTBSY ("text file busy").
// syscall.ForkLock is the lock os/exec takes for that purpose.
func writeExec(path string, data []byte) error {
	syscall.ForkLock.RLock()
	defer syscall.ForkLock.RUnlock()
	return os.WriteFile(path, data, 0o755)
}

func TestC13(t *testing.T) {
	forCases(t, 16, func(c spec.Case, e Em) {
		var p spec.C13Case
		param(c, &p)
		d := caseDir(c.ID, "")
		marker := filepath.Join(d, "launched")
		content := spec.C13File(p.FileKind, p.FileSize, p.FileSeed)
		path := filepath.Join(d, "plugin-bin")
		if !p.Missing {
			writeExec(path, content)
		}
		var o spec.C13Obs
		if len(p.Concurrent) > 0 {
			sc := &plugin.SecureConfig{Checksum: p.Checksum, Hash: &sessionHash{Hash: newHash(p.Hash)}}
			o.Steps = make([]spec.C13StepObs, len(p.Concurrent))
			var wg sync.WaitGroup
			for i, st := range p.Concurrent {
				body := content
				if st == "tampered" {
					body = append(append([]byte(nil), content...), '#', 'x')
				}
				pi := filepath.Join(d, fmt.Sprintf("bin%d", i))
				writeExec(pi, body)
				md := filepath.Join(d, "m"+strconv.Itoa(i))
				os.MkdirAll(md, 0o755)
				h := newHash(p.Hash)
				h.Write(body)
				o.Steps[i].FileSum = h.Sum(nil)
				wg.Add(1)
				go func(i int) {
					defer wg.Done()
					time.Sleep(time.Duration(i*5) * time.Millisecond)
					so := &o.Steps[i]
					cfg := baseClientConfig()
					cfg.StartTimeout = 600 * time.Millisecond
					hostSetFor(cfg, "netrpc")
					cfg.Cmd = exec.Command(pi)
					cfg.Cmd.Env = []string{"VERIF_MARKER_DIR=" + md}
					cfg.SecureConfig = sc
					cl := plugin.NewClient(cfg)
					_, err := cl.Start()
					so.Err = errStr(err)
					so.IsMismatch = errors.Is(err, plugin.ErrChecksumsDoNotMatch) || (err != nil && strings.Contains(err.Error(), plugin.ErrChecksumsDoNotMatch.Error()))
					so.ProcessSet = cfg.Cmd.Process != nil
					for k := 0; k < 300 && so.ProcessSet; k++ {
						if _, err := os.Stat(filepath.Join(md, "launched")); err == nil {
							break
						}
						time.Sleep(10 * time.Millisecond)
					}
					_, merr := os.Stat(filepath.Join(md, "launched"))
					so.Marker = merr == nil
					if cfg.Cmd.Process != nil {
						cfg.Cmd.Process.Kill()
					}
					within(20*time.Second, cl.Kill)
				}(i)
			}
			wg.Wait()
			e.Ret("h", "Start", o)
			return
		}
		if p.ViaRunner {
			cfg := baseClientConfig()
			cfg.StartTimeout = 600 * time.Millisecond
			hostSetFor(cfg, "netrpc")
			var calls atomic.Int32
			cfg.RunnerFunc = func(l hclog.Logger, cmd *exec.Cmd, tmp string) (runner.Runner, error) {
				calls.Add(1)
				real := exec.Command(path)
				real.Env = []string{"VERIF_MARKER_DIR=" + d}
				return cmdrunnerLike(real)
			}
			cfg.SecureConfig = &plugin.SecureConfig{Checksum: p.Checksum, Hash: newHash(p.Hash)}
			cl := plugin.NewClient(cfg)
			_, err := cl.Start()
			o.Err = errStr(err)
			o.IsMismatch = errors.Is(err, plugin.ErrChecksumsDoNotMatch) || (err != nil && strings.Contains(err.Error(), plugin.ErrChecksumsDoNotMatch.Error()))
			time.Sleep(100 * time.Millisecond)
			_, merr := os.Stat(marker)
			o.Marker = merr == nil
			o.RunnerCalls = int(calls.Load())
			within(20*time.Second, cl.Kill)
			h := newHash(p.Hash)
			if h != nil {
				h.Write(content)
				o.FileSum = h.Sum(nil)
			}
			e.Ret("h", "Start", o)
			return
		}
		if p.PathKind != "" {
			tampered := append(append([]byte(nil), content...), '#', 'x')
			kind, which, _ := strings.Cut(p.PathKind, "-")
			at := content // what the kernel will execute
			other := tampered
			if which == "tampered" {
				at, other = tampered, content
			}
			switch kind {
			case "dotdot":
				os.MkdirAll(filepath.Join(d, "a"), 0o755)
				os.MkdirAll(filepath.Join(d, "b", "sub"), 0o755)
				os.Symlink(filepath.Join(d, "b", "sub"), filepath.Join(d, "a", "link"))
				writeExec(filepath.Join(d, "b", "bin"), at)
				writeExec(filepath.Join(d, "a", "bin"), other)
				path = filepath.Join(d, "a", "link") + "/../bin"
			case "symlink":
				writeExec(filepath.Join(d, "real-bin"), at)
				writeExec(filepath.Join(d, "decoy-bin"), other)
				path = filepath.Join(d, "link-bin")
				os.Symlink(filepath.Join(d, "real-bin"), path)
			}
			argv0 := ""
			switch kind {
			case "barename":
				// a bare command name in a hand-built Cmd (no LookPath by the caller): exec runs the file of
				// that name in the host's working directory; a file of the same name with the other content
				// sits in a directory on PATH
				name := fmt.Sprintf("c13bare-%d-%d", os.Getpid(), c.ID)
				cwd, _ := os.Getwd()
				writeExec(filepath.Join(cwd, name), at)
				defer os.Remove(filepath.Join(cwd, name))
				pd := c13PathDir()
				writeExec(filepath.Join(pd, name), other)
				defer os.Remove(filepath.Join(pd, name))
				path = name
			case "relative", "argv0":
				// a relative Cmd.Path (Cmd.Dir unset: resolved against the host's working directory); for
				// "argv0" the process is also given an argv[0] that names the OTHER file by its absolute path
				// (argv[0] is only what the process sees as its name; the kernel runs Cmd.Path)
				writeExec(filepath.Join(d, "bin"), at)
				writeExec(filepath.Join(d, "other-bin"), other)
				cwd, _ := os.Getwd()
				if rel, err := filepath.Rel(cwd, filepath.Join(d, "bin")); err == nil {
					path = rel
					if !strings.Contains(path, "/") {
						path = "./" + path
					}
				}
				if kind == "argv0" {
					argv0 = filepath.Join(d, "other-bin")
				}
			}
			// what is at the path as the kernel resolves it
			if b, err := os.ReadFile(path); err == nil {
				h := newHash(p.Hash)
				h.Write(b)
				o.FileSum = h.Sum(nil)
			}
			cfg := baseClientConfig()
			cfg.StartTimeout = 600 * time.Millisecond
			hostSetFor(cfg, "netrpc")
			cfg.Cmd = &exec.Cmd{Path: path, Args: []string{path}} // exactly this spelling, no LookPath clean-up
			if argv0 != "" {
				cfg.Cmd.Args = []string{argv0}
			}
			cfg.Cmd.Env = []string{"VERIF_MARKER_DIR=" + d}
			cfg.SecureConfig = &plugin.SecureConfig{Checksum: p.Checksum, Hash: newHash(p.Hash)}
			cl := plugin.NewClient(cfg)
			_, err := cl.Start()
			o.Err = errStr(err)
			o.IsMismatch = errors.Is(err, plugin.ErrChecksumsDoNotMatch) || (err != nil && strings.Contains(err.Error(), plugin.ErrChecksumsDoNotMatch.Error()))
			o.ProcessSet = cfg.Cmd.Process != nil
			for i := 0; i < 1000 && o.ProcessSet; i++ {
				if _, err := os.Stat(marker); err == nil {
					break
				}
				time.Sleep(10 * time.Millisecond)
			}
			_, merr := os.Stat(marker)
			o.Marker = merr == nil
			if cfg.Cmd.Process != nil {
				cfg.Cmd.Process.Kill()
			}
			within(20*time.Second, cl.Kill)
			e.Ret("h", "Start", o)
			return
		}
		if len(p.Steps) > 0 {
			sc := &plugin.SecureConfig{Checksum: p.Checksum, Hash: newHash(p.Hash)}
			var origMtime time.Time
			for i, st := range p.Steps {
				body := content
				if st == "tampered" {
					body = append(append([]byte(nil), content...), '#', 'x')
				}
				if p.InPlace {
					if st == "tampered" {
						body = append([]byte(nil), content...)
						body[len(body)-1] ^= 1 // same length; the last byte is part of a trailing comment
					}
					if i == 0 {
						writeExec(path, content)
						if fi, err := os.Stat(path); err == nil {
							origMtime = fi.ModTime()
						}
					}
					// same inode, same size, and the modification time put back
					syscall.ForkLock.RLock()
					if f, err := os.OpenFile(path, os.O_WRONLY|os.O_TRUNC, 0); err == nil {
						f.Write(body)
						f.Close()
					}
					syscall.ForkLock.RUnlock()
					os.Chtimes(path, origMtime, origMtime)
				} else {
					// replace the file the way an upgrade or an attacker would: atomically
					tmp := path + ".new"
					writeExec(tmp, body)
					os.Rename(tmp, path)
				}
				md := filepath.Join(d, "m"+strconv.Itoa(i))
				os.MkdirAll(md, 0o755)
				var so spec.C13StepObs
				h := newHash(p.Hash)
				h.Write(body)
				so.FileSum = h.Sum(nil)
				if p.CallerReset {
					sc.Hash.Reset()
				}
				cfg := baseClientConfig()
				cfg.StartTimeout = 600 * time.Millisecond
				hostSetFor(cfg, "netrpc")
				cfg.Cmd = exec.Command(path)
				cfg.Cmd.Env = []string{"VERIF_MARKER_DIR=" + md}
				cfg.SecureConfig = sc
				cl := plugin.NewClient(cfg)
				_, err := cl.Start()
				so.Err = errStr(err)
				so.IsMismatch = errors.Is(err, plugin.ErrChecksumsDoNotMatch) || (err != nil && strings.Contains(err.Error(), plugin.ErrChecksumsDoNotMatch.Error()))
				so.ProcessSet = cfg.Cmd.Process != nil
				for k := 0; k < 1000 && so.ProcessSet; k++ {
					if _, err := os.Stat(filepath.Join(md, "launched")); err == nil {
						break
					}
					time.Sleep(10 * time.Millisecond)
				}
				_, merr := os.Stat(filepath.Join(md, "launched"))
				so.Marker = merr == nil
				if cfg.Cmd.Process != nil {
					cfg.Cmd.Process.Kill() // the script only sleeps; no need to wait for the start timeout
				}
				within(20*time.Second, cl.Kill)
				o.Steps = append(o.Steps, so)
			}
			e.Ret("h", "Start", o)
			return
		}
		if h := newHash(p.Hash); h != nil {
			h.Write(content)
			o.FileSum = h.Sum(nil)
		}
		sum := p.Checksum
		cfg := baseClientConfig()
		cfg.StartTimeout = 3 * time.Second
		hostSetFor(cfg, "netrpc")
		cfg.Cmd = exec.Command(path)
		cfg.Cmd.Env = []string{"VERIF_MARKER_DIR=" + d}
		cfg.SecureConfig = &plugin.SecureConfig{Checksum: sum, Hash: newHash(p.Hash)}
		cl := plugin.NewClient(cfg)
		_, err := cl.Start()
		if err != nil {
			// a client that was refused is asked again (Client() does the same): nothing may be launched then either
			cl.Start()
		}
		o.Err = errStr(err)
		o.IsMismatch = errors.Is(err, plugin.ErrChecksumsDoNotMatch) || (err != nil && strings.Contains(err.Error(), plugin.ErrChecksumsDoNotMatch.Error()))
		o.IsNoChecksum = err != nil && strings.Contains(err.Error(), plugin.ErrSecureConfigNoChecksum.Error())
		o.IsNoHash = err != nil && strings.Contains(err.Error(), plugin.ErrSecureConfigNoHash.Error())
		o.ProcessSet = cfg.Cmd.Process != nil
		// give a launched script a moment to write its marker
		for i := 0; i < 1000 && o.ProcessSet; i++ {
			if _, err := os.Stat(marker); err == nil {
				break
			}
			time.Sleep(10 * time.Millisecond)
		}
		_, merr := os.Stat(marker)
		o.Marker = merr == nil
		within(20*time.Second, cl.Kill)
		if cfg.Cmd.Process != nil {
			cfg.Cmd.Process.Kill()
		}
		e.Ret("h", "Start", o)
	})
}

var c13PathOnce sync.Once
var c13PathDirName string

// c13PathDir returns a directory of this host process that has been put in front of PATH.
func c13PathDir() string {
	c13PathOnce.Do(func() {
		cwd, _ := os.Getwd()
		d := filepath.Join(cwd, "c13path")
		if err := os.MkdirAll(d, 0o755); err == nil {
			c13PathDirName = d
			os.Setenv("PATH", d+string(os.PathListSeparator)+os.Getenv("PATH"))
		}
	})
	return c13PathDirName
}
