package host

import (
	"bytes"
	"crypto/sha256"
	"fmt"
	"net"
	"os"
	"os/exec"
	"path/filepath"
	"strings"
	"sync"
	"sync/atomic"
	"testing"
	"time"

	hclog "github.com/hashicorp/go-hclog"
	plugin "github.com/hashicorp/go-plugin"
	"github.com/hashicorp/go-plugin/runner"
	"verif/spec"
	"verif/vp"
)

// inprocServer serves the net/rpc plugin protocol on a fresh TCP listener in
// this process, so a scripted runner can announce a live address.
func inprocServer() (addr string, stop func()) {
	l, err := net.Listen("tcp", "127.0.0.1:0")
	if err != nil {
		panic(err)
	}
	core := vp.NewCore()
	srv := &plugin.RPCServer{Plugins: vp.Set("netrpc", 1, []string{"kv"}, core), Stdout: bytes.NewReader(nil), Stderr: bytes.NewReader(nil), DoneCh: make(chan struct{})}
	go srv.Serve(l)
	return l.Addr().String(), func() { l.Close() }
}

func TestC19(t *testing.T) {
	forCases(t, 12, func(c spec.Case, e Em) {
		var p spec.C19Case
		param(c, &p)
		d := caseDir(c.ID, "")
		var launches, runnerFuncs, kills atomic.Int32
		cfg := &plugin.ClientConfig{
			HandshakeConfig:  plugin.HandshakeConfig{ProtocolVersion: 1, MagicCookieKey: spec.CookieKey, MagicCookieValue: spec.CookieValue},
			Plugins:          vp.Set("netrpc", 1, []string{"kv"}, nil),
			StartTimeout:     5 * time.Second,
			Logger:           quietLogger(),
			UnixSocketConfig: &plugin.UnixSocketConfig{TempDir: d},
		}
		var stops []func()
		var mu sync.Mutex
		scripted := func(script func(r *vp.ScriptRunner)) {
			cfg.RunnerFunc = func(l hclog.Logger, cmd *exec.Cmd, tmp string) (runner.Runner, error) {
				runnerFuncs.Add(1)
				e.Note("runnerfunc", nil)
				var sr *vp.ScriptRunner
				sr = vp.NewScriptRunner(func(r *vp.ScriptRunner) {
					launches.Add(1)
					e.Note("launch", nil)
					script(r)
				})
				mu.Lock()
				stops = append(stops, func() { kills.Add(sr.Kills.Load()); sr.Exit() })
				mu.Unlock()
				return sr, nil
			}
		}
		proc := func(cf string) {
			cfg.RunnerFunc = func(l hclog.Logger, cmd *exec.Cmd, tmp string) (runner.Runner, error) {
				runnerFuncs.Add(1)
				e.Note("runnerfunc", nil)
				cmd.Env = append(cmd.Env, "TMPDIR="+d)
				pr, err := vp.NewProcRunner(cmd, pluginBin, cf)
				if err != nil {
					return nil, err
				}
				mu.Lock()
				stops = append(stops, func() {
					launches.Add(pr.Starts.Load())
					kills.Add(pr.Kills.Load())
					pr.Kill(nil)
				})
				mu.Unlock()
				return pr, nil
			}
		}
		listen := func() {}
		switch p.Mode {
		case "ok":
			addr, stop := inprocServer()
			stops = append(stops, stop)
			scripted(func(r *vp.ScriptRunner) { fmt.Fprintf(r.Out, "1|1|tcp|%s|netrpc\n", addr) })
		case "ok-nolisten":
			// a valid line, but nothing listens at the announced address: Start succeeds, Client() cannot
			scripted(func(r *vp.ScriptRunner) { r.Out.Write([]byte("1|1|tcp|127.0.0.1:1|netrpc\n")) })
		case "ok-latelisten":
			// a valid line for a unix socket nobody listens on yet; the step "Listen" brings the server up
			sock := filepath.Join(d, "late.sock")
			scripted(func(r *vp.ScriptRunner) { fmt.Fprintf(r.Out, "1|1|unix|%s|netrpc\n", sock) })
			listen = func() {
				l, err := net.Listen("unix", sock)
				if err != nil {
					e.Note("listen-error", err.Error())
					return
				}
				srv := &plugin.RPCServer{Plugins: vp.Set("netrpc", 1, []string{"kv"}, vp.NewCore()), Stdout: bytes.NewReader(nil), Stderr: bytes.NewReader(nil), DoneCh: make(chan struct{})}
				go srv.Serve(l)
				mu.Lock()
				stops = append(stops, func() { l.Close() })
				mu.Unlock()
			}
		case "fail-line":
			scripted(func(r *vp.ScriptRunner) { r.Out.Write([]byte("garbage\n")) })
		case "fail-proto":
			scripted(func(r *vp.ScriptRunner) { r.Out.Write([]byte("1|1|tcp|127.0.0.1:1|grp\n")) })
		case "fail-cert":
			scripted(func(r *vp.ScriptRunner) {
				r.Out.Write([]byte("1|1|tcp|127.0.0.1:1|netrpc|" + strings.Repeat("A", 80) + "\n"))
			})
		case "fail-timeout":
			cfg.StartTimeout = 150 * time.Millisecond
			scripted(func(r *vp.ScriptRunner) {})
		case "fail-exit":
			scripted(func(r *vp.ScriptRunner) { r.Exit() })
		case "prelaunch-fail":
			scripted(func(r *vp.ScriptRunner) {})
			cfg.Cmd = nil
			cfg.SecureConfig = &plugin.SecureConfig{Checksum: []byte("not the checksum"), Hash: sha256.New()}
			// SecureConfig needs cmd.Path; with RunnerFunc the spec cmd is exec.Command("") => open error => error before launch
		case "proc-ok":
			proc(writeCfg(d, map[string]any{"legacy": map[string]any{"version": 1, "proto": "netrpc"}}))
		case "proc-fail":
			proc(writeCfg(d, map[string]any{"mode": "raw", "lineHex": "67617262616765200a", "after": "hang"}))
		case "cmd-ok":
			cfg.Cmd = exec.Command(pluginBin, writeCfg(d, map[string]any{"legacy": map[string]any{"version": 1, "proto": "netrpc"}}))
			cfg.Cmd.Env = []string{"TMPDIR=" + d}
		case "cmd-fail":
			cfg.Cmd = exec.Command(pluginBin, writeCfg(d, map[string]any{"mode": "raw", "lineHex": "67617262616765200a", "after": "hang"}))
			cfg.Cmd.Env = []string{"TMPDIR=" + d}
		}
		cl := plugin.NewClient(cfg)
		ptrs := map[any]string{}
		var pmu sync.Mutex
		ptrID := func(v any) string {
			pmu.Lock()
			defer pmu.Unlock()
			if s, ok := ptrs[v]; ok {
				return s
			}
			s := fmt.Sprintf("client#%d", len(ptrs)+1)
			ptrs[v] = s
			return s
		}
		do := func(g, op string) {
			var r spec.C19Res
			e.Call(g, op, nil)
			ok, _, dump := within(60*time.Second, func() {
				defer func() {
					if x := recover(); x != nil {
						r.Panic = fmt.Sprint(x)
					}
				}()
				switch op {
				case "Start":
					a, err := cl.Start()
					r.OK, r.Err = err == nil, errStr(err)
					if err == nil && a != nil {
						r.Addr = a.Network() + "/" + a.String()
					}
				case "Client":
					cp, err := cl.Client()
					r.OK, r.Err = err == nil, errStr(err)
					if err == nil {
						r.Ptr = ptrID(cp)
					}
				case "Protocol":
					r.OK, r.Str = true, string(cl.Protocol())
				case "ReattachConfig":
					rc := cl.ReattachConfig()
					r.OK, r.Bool = true, rc != nil
					if rc != nil && rc.Addr != nil {
						r.Addr = rc.Addr.Network() + "/" + rc.Addr.String()
					}
				case "ID":
					r.OK, r.Str = true, cl.ID()
				case "Exited":
					r.OK, r.Bool = true, cl.Exited()
				case "Kill":
					cl.Kill()
					r.OK = true
				case "Listen":
					listen()
					r.OK = true
				}
			})
			if !ok {
				r.Hung = true
				e.Note("dump", trunc(dump, 6000))
			}
			e.Ret(g, op, r)
		}
		if p.Jitter {
			// hook jitter is process-global; harmless for other cases
			plugin.VerifSetHook(vp.Jitter(int64(c.ID), 2000, nil, "client.start.launched", "client.start.waiting", "client.kill.closing"))
		}
		var wg sync.WaitGroup
		for gi, ops := range p.Threads {
			wg.Add(1)
			go func(g string, ops []string) {
				defer wg.Done()
				for _, op := range ops {
					do(g, op)
				}
			}(fmt.Sprintf("g%d", gi), ops)
		}
		wg.Wait()
		var end spec.C19End
		ok, _, dump := within(60*time.Second, cl.Kill)
		end.FinalKillOK, end.Dump = ok, trunc(dump, 4000)
		mu.Lock()
		for _, s := range stops {
			s()
		}
		mu.Unlock()
		end.Launches, end.RunnerFuncs, end.Kills = int(launches.Load()), int(runnerFuncs.Load()), int(kills.Load())
		if m, _ := filepath.Glob(filepath.Join(d, "plugin-dir*")); m != nil {
			end.PluginDirs = len(m)
		}
		_ = os.Getpid
		e.Obs("end", end)
	})
}

func trunc(s string, n int) string {
	if len(s) > n {
		return s[:n]
	}
	return s
}
