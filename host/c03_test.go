package host

import (
	"context"
	"encoding/hex"
	"fmt"
	"strings"
	"sync"
	"syscall"
	"testing"
	"time"

	plugin "github.com/hashicorp/go-plugin"
	"verif/spec"
	"verif/vp"
)

const c03H = 24 * time.Second // hang threshold for a nominal bound of <= 6 s

type c03Run struct {
	e     Em
	mu    sync.Mutex
	o     spec.C03Obs
	l     *launched
	cp    plugin.ClientProtocol
	cli   vp.Cli
	hmux  *plugin.MuxBroker
	hgrpc *plugin.GRPCBroker
	ctx   context.Context
	wg    sync.WaitGroup
}

// call runs fn under the hang watchdog and records the outcome.
func (r *c03Run) call(phase, op string, fn func() error) spec.C03Call {
	c := spec.C03Call{Op: op, Phase: phase}
	r.e.Call("h", op, phase)
	ok, el, dump := within(c03H, func() {
		defer func() {
			if x := recover(); x != nil {
				c.Panic = fmt.Sprint(x)
			}
		}()
		err := fn()
		c.Err, c.OK = errStr(err), err == nil
	})
	c.Returned, c.Ms = ok, el.Milliseconds()
	if !ok {
		r.mu.Lock()
		if r.o.Dump == "" {
			r.o.Dump = trunc(dump, 6000)
		}
		r.mu.Unlock()
		c.OK = false
	}
	r.mu.Lock()
	r.o.Calls = append(r.o.Calls, c)
	r.mu.Unlock()
	r.e.Ret("h", op, c)
	return c
}

func (r *c03Run) inflight(op string, fn func() error) {
	r.wg.Add(1)
	go func() { defer r.wg.Done(); r.call("inflight", op, fn) }()
}

func (r *c03Run) start() bool {
	return r.call("pre", "Start", func() error { _, err := r.l.Client.Start(); return err }).OK
}
func (r *c03Run) client() bool {
	return r.call("pre", "Client", func() error {
		cp, err := r.l.Client.Client()
		r.cp = cp
		return err
	}).OK
}
func (r *c03Run) dispense() bool {
	return r.call("pre", "Dispense", func() error {
		raw, err := r.cp.Dispense("kv")
		if err != nil {
			return err
		}
		r.cli = raw.(vp.Cli)
		switch c := raw.(type) {
		case *vp.RPCCli:
			r.hmux = c.Broker
		case *vp.GRPCCli:
			r.hgrpc, r.ctx = c.Broker, c.Ctx
		}
		_, err = r.cli.Do("tag")
		return err
	}).OK
}

func (r *c03Run) extKill(after time.Duration) {
	time.Sleep(after)
	killOurs(r.l.pid(), syscall.SIGKILL)
}

// c03AtSend: broker ids whose host-side control-stream message, once the host's stream goroutine has
// taken it and is about to put it on the wire (hook point grpcbroker.stream.sending), triggers the
// registered action (the plugin's death) before the goroutine carries on.
var c03AtSend sync.Map // uint32 -> func()

// gatedWriter blocks every Write until it is released (a pipe nobody reads yet).
type gatedWriter struct {
	once, rel sync.Once
	entered   chan struct{}
	open      chan struct{}
}

func (g *gatedWriter) Write(p []byte) (int, error) {
	g.once.Do(func() { close(g.entered) })
	<-g.open
	return len(p), nil
}
func (g *gatedWriter) release() { g.rel.Do(func() { close(g.open) }) }

func TestC03(t *testing.T) {
	plugin.VerifSetHook(func(name string, id uint32) {
		if name == "grpcbroker.stream.sending" {
			if f, ok := c03AtSend.LoadAndDelete(id); ok {
				f.(func())()
			}
		}
	})
	forCases(t, 16, func(c spec.Case, e Em) {
		var p spec.C03Case
		param(c, &p)
		r := &c03Run{e: e}
		wire, mux := p.Proto, false
		if p.Proto == "grpcmux" {
			wire, mux = "grpc", true
		}
		cfg := baseClientConfig()
		cfg.GRPCBrokerMultiplex = mux
		cfg.StartTimeout = 3 * time.Second
		var out, errb lockedBuf
		cfg.SyncStdout, cfg.SyncStderr = &out, &errb
		hostSetFor(cfg, wire)
		pcfg := pluginCfgFor(wire)
		var env []string
		name, arg, _ := strings.Cut(p.Scenario, ":")
		var gate *gatedWriter
		if name == "sync-writer-drained-after-kill" {
			// the host collects the plugin's stdout through a pipe that it only starts reading once Kill
			// has returned: until then a Write into SyncStdout blocks
			gate = &gatedWriter{entered: make(chan struct{}), open: make(chan struct{})}
			cfg.SyncStdout = gate
			defer gate.release()
		}
		if name == "hook" {
			act := "kill"
			if p.Death == "exit" {
				act = "exit"
			}
			env = append(env, "VERIF_HOOK="+arg+":"+act+":1")
		}
		if name == "partial" {
			// a valid line for this protocol, cut at offset Arg, then the process exits
			line := "1|1|unix|/nonexistent/sock|" + wire + "|"
			if mux {
				line += "|true"
			}
			line += "\n"
			if p.Arg < len(line) {
				line = line[:p.Arg]
			}
			pcfg = map[string]any{"mode": "raw", "lineHex": hex.EncodeToString([]byte(line)), "after": "exit", "exitCode": 3}
		}
		if name == "line-plus-more" {
			// a valid handshake line with Arg more lines behind it in the same write (a plugin that prints a
			// banner, a block-buffered non-Go plugin): the plugin stays up for 400 ms and then exits by itself
			line := "1|1|unix|/nonexistent/sock|" + wire + "|"
			if mux {
				line += "|true"
			}
			line += "\n"
			for k := 0; k < p.Arg; k++ {
				line += fmt.Sprintf("plugin banner line %d\n", k)
			}
			if p.Death == "exit" {
				line += "unterminated tail"
			}
			pcfg = map[string]any{"mode": "raw", "lineHex": hex.EncodeToString([]byte(line)), "after": "exit", "exitAfterMs": 400}
		}
		r.l = prepare(c.ID, "", pcfg, cfg, "cmd", env...)
		defer r.l.hardKill()

		up := false // fully started, client + dispensed
		bring := func() bool {
			if !r.start() || !r.client() || !r.dispense() {
				return false
			}
			up = true
			return true
		}
		switch name {
		case "partial", "line-plus-more":
			r.start()
		case "hook":
			switch arg {
			case "serve.cookieOK", "serve.listenerReady", "serve.lineWritten", "serve.serving":
				if r.start() {
					r.client()
				}
			case "rpcserver.dispense.reserved":
				if r.start() && r.client() {
					r.inflight("Dispense", func() error { _, err := r.cp.Dispense("kv"); return err })
				}
			case "grpcbroker.accept.listening":
				if bring() {
					id := uint32(77)
					r.inflight("plugin:grpc-accept", func() error { _, err := r.cli.Do("grpc-accept", "id", id, "nonce", "x"); return err })
					r.inflight("BrokerDial", func() error {
						d := vp.GRPCDialPing(r.hgrpc, id, c03H, true)
						if d.DialErr != "" || d.PingErr != "" {
							return fmt.Errorf("%s %s", d.DialErr, d.PingErr)
						}
						return nil
					})
				}
			case "mux.accept.gotConn":
				if bring() {
					id := uint32(7777)
					r.inflight("plugin:mux-accept", func() error { _, err := r.cli.Do("mux-accept", "id", id, "nonce", "x", "len", 10); return err })
					r.inflight("BrokerDial", func() error { _, err := vp.MuxDial(r.hmux, id, "d", 10); return err })
				}
			case "grpcbroker.knock.sent":
				if bring() {
					id := uint32(78)
					h := vp.GRPCAcceptServe(r.hgrpc, id, "hostside")
					defer h.Stop()
					r.inflight("plugin:grpc-dial", func() error { _, err := r.cli.Do("grpc-dial", "id", id, "timeoutMs", 20000); return err })
				}
			case "grpcstdio.chunkRead":
				if bring() {
					r.inflight("plugin:write", func() error {
						_, err := r.cli.Do("write", "plan", map[string]any{"seed": 1, "frames": []map[string]any{{"s": "o", "n": 3000}, {"s": "e", "n": 100}}})
						if err == nil {
							// the write may be acknowledged before the copier dies: follow with a call that needs the plugin
							time.Sleep(300 * time.Millisecond)
							_, err = r.cli.Do("tag")
						}
						return err
					})
				}
			}
		case "idle":
			if bring() {
				go r.extKill(50 * time.Millisecond)
			}
		case "unary-self-kill":
			if bring() {
				r.inflight("Call(sigkill)", func() error { _, err := r.cli.Do("sigkill"); return err })
			}
		case "unary-self-exit":
			if bring() {
				r.inflight("Call(exit)", func() error { _, err := r.cli.Do("exit", "code", 3); return err })
			}
		case "slow-unary":
			if bring() {
				r.inflight("Call(sleep)", func() error { _, err := r.cli.Do("sleep", "ms", 8000); return err })
				go r.extKill(time.Duration(p.Arg) * time.Millisecond)
			}
		case "stream":
			if bring() {
				g := r.cli.(*vp.GRPCCli)
				r.inflight("Stream", func() error {
					n, err := g.StreamN(context.Background(), 50, 20, 3)
					if err == nil || err.Error() == "EOF" {
						return nil // a clean end although the plugin died mid-stream
					}
					if n < 3 {
						return fmt.Errorf("only %d messages before: %w", n, err)
					}
					return err
				})
			}
		case "broker-id-issued":
			if bring() {
				if r.hmux != nil {
					m, err := r.cli.Do("mux-nextid")
					if err == nil {
						id := uint32(vp.Int(m, "id"))
						r.inflight("BrokerDial", func() error { _, err := vp.MuxDial(r.hmux, id, "d", 10); return err })
					}
				} else {
					m, err := r.cli.Do("grpc-nextid")
					if err == nil {
						id := uint32(vp.Int(m, "id"))
						r.inflight("BrokerDial", func() error {
							d := vp.GRPCDialPing(r.hgrpc, id, c03H, true)
							if d.DialErr != "" || d.PingErr != "" {
								return fmt.Errorf("%s %s", d.DialErr, d.PingErr)
							}
							return nil
						})
					}
				}
				go r.extKill(time.Duration(p.Arg) * time.Millisecond)
			}
		case "host-accept-inflight":
			if bring() {
				if r.hmux != nil {
					r.inflight("BrokerAccept", func() error { _, err := vp.MuxAccept(r.hmux, 4242, "a", 10); return err })
				} else {
					r.inflight("BrokerAccept", func() error {
						ln, err := r.hgrpc.Accept(4242)
						if err == nil {
							ln.Close()
						}
						return nil // GRPCBroker.Accept only has to return
					})
				}
				go r.extKill(time.Duration(p.Arg) * time.Millisecond)
			}
		case "host-send-inflight":
			// the plugin dies while a host-side broker call has its control-stream message between the stream
			// goroutine's pick-up and the wire: an Accept's listener address (no multiplexing) or a Dial's
			// knock (multiplexing)
			if bring() && r.hgrpc != nil {
				id := uint32(600000 + c.ID)
				c03AtSend.Store(id, func() {
					killOurs(r.l.pid(), syscall.SIGKILL)
					t0 := time.Now()
					for !r.l.Client.Exited() && time.Since(t0) < 10*time.Second {
						time.Sleep(5 * time.Millisecond)
					}
					time.Sleep(time.Duration(p.Arg) * time.Millisecond)
				})
				defer c03AtSend.Delete(id)
				if mux {
					r.inflight("BrokerDial", func() error {
						d := vp.GRPCDialPing(r.hgrpc, id, c03H, true)
						if d.DialErr != "" || d.PingErr != "" {
							return fmt.Errorf("%s %s", d.DialErr, d.PingErr)
						}
						return nil
					})
				} else {
					r.inflight("BrokerAccept", func() error {
						ln, err := r.hgrpc.Accept(id)
						if err == nil {
							ln.Close()
						}
						return nil // GRPCBroker.Accept only has to return
					})
				}
			}
		case "plugin-dial-parked":
			// the plugin dials a brokered id the host has not accepted (yet): the stream is parked in the host's
			// broker (net/rpc) / the plugin's dial is waiting for the host's listener (gRPC kinds) when it dies
			if bring() {
				id := uint32(700000 + c.ID)
				if r.hmux != nil {
					r.inflight("plugin:mux-dial", func() error { _, err := r.cli.Do("mux-dial", "id", id, "nonce", "p", "len", 10); return err })
				} else {
					r.inflight("plugin:grpc-dial", func() error { _, err := r.cli.Do("grpc-dial", "id", id, "timeoutMs", 20000); return err })
				}
				go r.extKill(time.Duration(p.Arg) * time.Millisecond)
			}
		case "sync-writer-drained-after-kill":
			if bring() {
				r.call("pre", "Call(write)", func() error {
					_, err := r.cli.Do("write", "plan", map[string]any{"seed": 1, "frames": []map[string]any{{"s": "o", "n": 3000}, {"s": "o", "n": 100}}})
					return err
				})
				select {
				case <-gate.entered:
				case <-time.After(10 * time.Second):
				}
				go r.extKill(time.Duration(p.Arg) * time.Millisecond)
			}
		case "random-instant":
			if bring() {
				stop := make(chan struct{})
				for g := 0; g < 3; g++ {
					g := g
					r.wg.Add(1)
					go func() {
						defer r.wg.Done()
						for i := 0; ; i++ {
							select {
							case <-stop:
								return
							default:
							}
							var res spec.C03Call
							switch (i + g) % 4 {
							case 0:
								res = r.call("inflight", "Ping", r.cp.Ping)
							case 1:
								res = r.call("inflight", "Call(tag)", func() error { _, err := r.cli.Do("tag"); return err })
							case 2:
								res = r.call("inflight", "Dispense*", func() error { _, err := r.cp.Dispense("kv"); return err })
							case 3:
								res = r.call("inflight", "Call(big)", func() error { _, err := r.cli.Do("big", "n", 200000); return err })
							}
							if !res.OK {
								return
							}
						}
					}()
				}
				go func() {
					r.extKill(time.Duration(p.Arg) * time.Millisecond)
					time.Sleep(300 * time.Millisecond)
					close(stop)
				}()
			}
		}
		// the death
		t0 := time.Now()
		pid := 0
		for i := 0; i < 300 && pid == 0; i++ {
			pid = r.l.pid()
			if pid == 0 {
				time.Sleep(10 * time.Millisecond)
			}
		}
		r.o.Pid = pid
		st := waitState(pid, 15*time.Second, "gone", "Z", "X")
		r.o.Died, r.o.DiedMs = terminated(st), time.Since(t0).Milliseconds()
		done := make(chan struct{})
		go func() { r.wg.Wait(); close(done) }()
		select {
		case <-done:
		case <-time.After(c03H + 5*time.Second):
		}
		if r.o.Died {
			// Exited() and context cancellation, as bounded progress after the death
			t1 := time.Now()
			for time.Since(t1) < c03H {
				if r.l.Client.Exited() {
					r.o.ExitedTrue, r.o.ExitedMs = true, time.Since(t1).Milliseconds()
					break
				}
				time.Sleep(20 * time.Millisecond)
			}
			if r.ctx != nil {
				r.o.HaveCtx = true
				select {
				case <-r.ctx.Done():
					r.o.CtxCancelled = true
				case <-time.After(c03H):
				}
			}
			// subsequent calls
			if r.cp != nil {
				r.call("post", "Ping", r.cp.Ping)
				r.call("post", "Dispense", func() error { _, err := r.cp.Dispense("kv"); return err })
			}
			if up {
				r.call("post", "Call(tag)", func() error { _, err := r.cli.Do("tag"); return err })
				if r.hmux != nil {
					r.call("post", "BrokerDial", func() error { _, err := vp.MuxDial(r.hmux, 99001, "d", 10); return err })
					r.call("post", "BrokerAccept", func() error { _, err := vp.MuxAccept(r.hmux, 99002, "a", 10); return err })
				}
				if r.hgrpc != nil {
					r.call("post", "BrokerDial", func() error {
						d := vp.GRPCDialPing(r.hgrpc, 99001, c03H, true)
						if d.DialErr != "" || d.PingErr != "" {
							return fmt.Errorf("%s %s", d.DialErr, d.PingErr)
						}
						return nil
					})
				}
			}
			r.call("post", "Start", func() error { _, err := r.l.Client.Start(); return err })
			r.call("post", "Client", func() error { _, err := r.l.Client.Client(); return err })
		}
		ok, _, dump := within(c03H, r.l.Client.Kill)
		r.o.KillReturned = ok
		if !ok && r.o.Dump == "" {
			r.o.Dump = trunc(dump, 6000)
		}
		r.mu.Lock()
		o := r.o
		r.mu.Unlock()
		e.Obs("end", o)
	})
}
