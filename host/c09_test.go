package host

import (
	"fmt"
	"strings"
	"sync"
	"sync/atomic"
	"testing"
	"time"

	plugin "github.com/hashicorp/go-plugin"
	"verif/spec"
	"verif/vp"
)

var idSeq atomic.Uint32

func nextID() uint32 { return 1000 + idSeq.Add(1) }

type lineup struct {
	expiryHit, acceptGot, release chan struct{}
	o1, o2                        sync.Once
	// holdAccepted: the bookkeeping goroutine of a parked connection that was accepted is held (until
	// release) between noticing the accept and cleaning up its entry
	holdAccepted bool
}

var (
	lineups    sync.Map // id -> *lineup
	hookCounts vp.HookCounts
)

var c09StreamDelay atomic.Int32 // >0 while a close-race is in progress: widen the window inside the stream's send pump

func c09Hook(name string, id uint32) {
	hookCounts.Inc(name)
	if name == "grpcbroker.stream.sending" && c09StreamDelay.Load() > 0 {
		time.Sleep(2 * time.Millisecond)
	}
	v, ok := lineups.Load(id)
	if !ok {
		return
	}
	lu := v.(*lineup)
	switch name {
	case "mux.timeoutWait.fired":
		lu.o1.Do(func() { close(lu.expiryHit) })
		<-lu.release
	case "mux.accept.gotConn":
		lu.o2.Do(func() { close(lu.acceptGot) })
	case "mux.timeoutWait.accepted":
		if lu.holdAccepted {
			<-lu.release
		}
	}
}

const brokerH = 20 * time.Second // hang threshold for a nominal 5 s broker window

func (p *pair) dialOnce(side string, id uint32) string {
	if p.kind == "mux" {
		b := p.hostMux
		if side == "plugin" {
			b = p.plugMux
		}
		_, err := vp.MuxDial(b, id, vp.RandID(), 10)
		return errStr(err)
	}
	b := p.hostGRPC
	if side == "plugin" {
		b = p.plugGRPC
	}
	r := vp.GRPCDialPing(b, id, 60*time.Second, true)
	if r.DialErr != "" {
		return "dial: " + r.DialErr
	}
	if r.PingErr != "" {
		return "ping: " + r.PingErr
	}
	return ""
}

func other(side string) string {
	if side == "host" {
		return "plugin"
	}
	return "host"
}

// acceptOnce: for mux a real Accept (returns its error); for gRPC kinds an
// AcceptAndServe that is left serving for hold and then stopped.
func (p *pair) acceptOnce(side string, id uint32, hold time.Duration) string {
	if p.kind == "mux" {
		b := p.hostMux
		if side == "plugin" {
			b = p.plugMux
		}
		_, err := vp.MuxAccept(b, id, vp.RandID(), 10)
		return errStr(err)
	}
	b := p.hostGRPC
	if side == "plugin" {
		b = p.plugGRPC
	}
	h := vp.GRPCAcceptServe(b, id, vp.RandID())
	time.Sleep(hold)
	h.Stop()
	select {
	case <-h.Done:
		return "stopped"
	case <-time.After(brokerH):
		return "AcceptAndServe did not return after its server was stopped"
	}
}

func TestC09(t *testing.T) {
	plugin.VerifSetHook(c09Hook)
	forCases(t, 64, func(c spec.Case, e Em) {
		var p spec.C09Case
		param(c, &p)
		if p.Kind == "muxraw" {
			c09Raw(c, p, e)
			return
		}
		pr, err := newPair(t, p.Kind)
		if err != nil {
			e.Note("pair-error", err.Error())
			return
		}
		for _, st := range p.Steps {
			name, side, _ := strings.Cut(st, ":")
			id := nextID()
			var s spec.C09Step
			s.Step = st
			var mu sync.Mutex
			addErr := func(x string) { mu.Lock(); s.Errs = append(s.Errs, x); mu.Unlock() }
			e.Call("h", st, map[string]any{"id": id})
			ok, el, dump := within(2*brokerH, func() {
				switch name {
				case "dial-noaccept":
					addErr(pr.dialOnce(side, id))
				case "accept-nodial":
					addErr(pr.acceptOnce(side, id, 300*time.Millisecond))
				case "dial-burst-noaccept":
					// 160 dials at once to distinct ids that nobody accepts: every one fails within the window;
					// the pairs on fresh ids that follow must be unaffected
					var wg sync.WaitGroup
					var okN atomic.Int32
					for k := 0; k < 160; k++ {
						wg.Add(1)
						bid := nextID()
						go func() {
							defer wg.Done()
							if pr.dialOnce(side, bid) == "" {
								okN.Add(1)
							}
						}()
					}
					wg.Wait()
					addErr(fmt.Sprintf("burst-ok: %d", okN.Load()))
				case "accept-twice":
					// the same id announced twice, one after the other, inside one pending window, and
					// nobody dials; then both windows run out
					b := pr.hostGRPC
					if side == "plugin" {
						b = pr.plugGRPC
					}
					for i := 0; i < 2; i++ {
						ln, err := b.Accept(id)
						addErr(errStr(err))
						if err == nil {
							ln.Close()
						}
						if i == 0 {
							time.Sleep(2 * time.Second)
						}
					}
					time.Sleep(5500 * time.Millisecond)
				case "dial-twice":
					var wg sync.WaitGroup
					for i := 0; i < 2; i++ {
						wg.Add(1)
						go func() { defer wg.Done(); addErr(pr.dialOnce(side, id)) }()
					}
					wg.Wait()
				case "late-accept-during-other-knock":
					// (multiplexing) a dial to id A that nobody answers times out; a dial to another id B (nobody
					// answers either) is in flight when the other side accepts A late: the ack for A arrives while
					// the dialler is waiting for B's
					addErr("dialA: " + pr.dialOnce(side, id))
					idB := nextID()
					var wg sync.WaitGroup
					wg.Add(1)
					go func() { defer wg.Done(); addErr("dialB: " + pr.dialOnce(side, idB)) }()
					time.Sleep(1500 * time.Millisecond)
					b := pr.hostGRPC
					if other(side) == "plugin" {
						b = pr.plugGRPC
					}
					h := vp.GRPCAcceptServe(b, id, "late")
					wg.Wait()
					h.Stop()
					select {
					case <-h.Done:
					case <-time.After(brokerH):
						s.Note = "AcceptAndServe did not return after its server was stopped"
					}
				case "dial-timeout-then-accept-twice":
					// (gRPC, no multiplexing) a dial that nobody answers times out; then the other side announces
					// that id twice in a row and nobody dials it any more
					addErr("dial: " + pr.dialOnce(side, id))
					b := pr.hostGRPC
					if other(side) == "plugin" {
						b = pr.plugGRPC
					}
					for i := 0; i < 2; i++ {
						ln, err := b.Accept(id)
						addErr("accept: " + errStr(err))
						if err == nil {
							defer ln.Close()
						}
						time.Sleep(100 * time.Millisecond)
					}
				case "matched-then-dial-again":
					// (mux) an accept that is already waiting is met by its dial; then the same id is dialled a
					// second time and nobody accepts: that dial must fail within the window
					var wg sync.WaitGroup
					wg.Add(1)
					go func() { defer wg.Done(); addErr("accept: " + pr.acceptOnce(other(side), id, 0)) }()
					time.Sleep(200 * time.Millisecond)
					addErr("dial1: " + pr.dialOnce(side, id))
					wg.Wait()
					addErr("dial2: " + pr.dialOnce(side, id))
				case "matched-then-dial-again-held", "matched-then-pair-again-held":
					// (mux) as matched-then-dial-again, but the next use of the id arrives while the goroutine
					// that cleans up after the first pair has not run yet (held at mux.timeoutWait.accepted;
					// released 300 ms later): either a second dial that nobody accepts, which must fail within
					// the window, or a second accept with its dial, which must connect
					lu := &lineup{expiryHit: make(chan struct{}), acceptGot: make(chan struct{}), release: make(chan struct{}), holdAccepted: true}
					lineups.Store(id, lu)
					var wg sync.WaitGroup
					wg.Add(1)
					go func() { defer wg.Done(); addErr("accept: " + pr.acceptOnce(other(side), id, 0)) }()
					time.Sleep(200 * time.Millisecond)
					addErr("dial1: " + pr.dialOnce(side, id))
					wg.Wait()
					go func() { time.Sleep(300 * time.Millisecond); close(lu.release) }()
					if name == "matched-then-dial-again-held" {
						addErr("dial2: " + pr.dialOnce(side, id))
					} else {
						wg.Add(1)
						go func() { defer wg.Done(); addErr("accept2: " + pr.acceptOnce(other(side), id, 0)) }()
						time.Sleep(100 * time.Millisecond)
						addErr("dial3: " + pr.dialOnce(side, id))
						wg.Wait()
					}
					lineups.Delete(id)
				case "dial-timeout-then-accept":
					addErr(pr.dialOnce(side, id))
					if pr.kind == "mux" {
						addErr(pr.acceptOnce(other(side), id, 0))
					} else {
						// late accept left serving while the same id is dialled again
						b := pr.hostGRPC
						if other(side) == "plugin" {
							b = pr.plugGRPC
						}
						h := vp.GRPCAcceptServe(b, id, "late")
						time.Sleep(300 * time.Millisecond)
						s.Note = "redial: " + pr.dialOnce(side, id)
						h.Stop()
						<-h.Done
					}
				case "staggered-dials-then-accept":
					// dial; a second dial to the same id half-way through the first one's
					// window (its expiry goroutine outlives the first); once the first has
					// expired, an accept with no dial, which must simply time out
					var wg sync.WaitGroup
					d1 := make(chan struct{})
					wg.Add(2)
					go func() { defer wg.Done(); defer close(d1); addErr("dial1: " + pr.dialOnce(side, id)) }()
					time.Sleep(2500 * time.Millisecond)
					go func() { defer wg.Done(); addErr("dial2: " + pr.dialOnce(side, id)) }()
					<-d1
					addErr("accept: " + pr.acceptOnce(other(side), id, 300*time.Millisecond))
					wg.Wait()
				case "accept-timeout-then-dial":
					addErr(pr.acceptOnce(other(side), id, 300*time.Millisecond))
					addErr(pr.dialOnce(side, id))
				case "accept-at-expiry":
					lu := &lineup{expiryHit: make(chan struct{}), acceptGot: make(chan struct{}), release: make(chan struct{})}
					lineups.Store(id, lu)
					var wg sync.WaitGroup
					wg.Add(1)
					go func() { defer wg.Done(); addErr("dial: " + pr.dialOnce(side, id)) }()
					select {
					case <-lu.expiryHit:
					case <-time.After(brokerH):
						s.Note = "expiry hook never hit"
					}
					wg.Add(1)
					go func() { defer wg.Done(); addErr("accept: " + pr.acceptOnce(other(side), id, 0)) }()
					select {
					case <-lu.acceptGot:
						s.Note += " accept took the parked connection while its expiry was pending"
					case <-time.After(3 * time.Second):
						s.Note += " accept did not get the parked connection"
					}
					close(lu.release)
					wg.Wait()
					lineups.Delete(id)
				}
			})
			s.Returned, s.Ms = ok, el.Milliseconds()
			if !ok {
				s.Dump = trunc(dump, 5000)
				// release a lined-up expiry goroutine so it is not our own block that shows
				if v, ok2 := lineups.Load(id); ok2 {
					func() { defer func() { recover() }(); close(v.(*lineup).release) }()
				}
			}
			e.Ret("h", st, s)
		}
		// fresh matched pairs on new ids, both directions
		for i, dir := range []string{"host", "plugin"} {
			var f spec.C09Fresh
			f.Dir = dir
			id := nextID()
			e.Call("h", "fresh", map[string]any{"id": id, "dir": dir})
			ok, el, dump := within(brokerH, func() { f.OK, f.Err = pr.matched(id, dir, (c.ID+i)%2 == 0, 0) })
			f.Returned, f.Ms = ok, el.Milliseconds()
			if !ok {
				f.Dump = trunc(dump, 5000)
			}
			e.Ret("h", "fresh", f)
		}
		end := spec.C09End{}
		var stormDone chan struct{}
		var stuck atomic.Int32
		if p.CloseRace && pr.kind != "mux" {
			// listeners being announced on both sides at the moment the client is closed: every one of
			// these calls has to return
			c09StreamDelay.Add(1)
			stormDone = make(chan struct{})
			var wg sync.WaitGroup
			for g := 0; g < 8; g++ {
				wg.Add(1)
				stuck.Add(1)
				b := pr.hostGRPC
				if g%2 == 1 {
					b = pr.plugGRPC
				}
				go func() {
					defer wg.Done()
					defer stuck.Add(-1)
					for i := 0; i < 5000; i++ {
						ln, err := b.Accept(nextID())
						if err != nil {
							return
						}
						ln.Close()
					}
				}()
			}
			go func() { wg.Wait(); close(stormDone) }()
			time.Sleep(time.Duration(5+c.ID%40) * time.Millisecond)
			end.CloseRaced = true
		}
		var pending *vp.AcceptHandle
		if p.PeerGoneFirst && pr.kind != "mux" && pr.grpcServer != nil {
			pending = vp.GRPCAcceptServe(pr.hostGRPC, nextID(), "pending")
			time.Sleep(100 * time.Millisecond)
			within(brokerH, pr.grpcServer.Stop)
			time.Sleep(400 * time.Millisecond)
			end.PeerGone = true
		}
		ok, _, _ := within(brokerH, pr.close)
		end.ClosedOK = ok
		if pending != nil {
			select {
			case <-pending.Done:
			case <-time.After(brokerH):
				end.PendingStuck = true
				_, _, dump := within(time.Millisecond, func() { time.Sleep(time.Second) })
				end.PendingDump = trunc(dump, 4000)
				pending.Stop()
			}
		}
		if stormDone != nil {
			select {
			case <-stormDone:
			case <-time.After(brokerH):
				_, _, dump := within(time.Millisecond, func() { time.Sleep(time.Second) })
				end.StormDump = trunc(dump, 4000)
			}
			end.StormStuck = int(stuck.Load())
			c09StreamDelay.Add(-1)
		}
		e.Obs("end", end)
	})
	// every pair is closed: no broker goroutine may remain
	t0 := time.Now()
	var leak spec.C09Leak
	for {
		n, total, sample := brokerGoroutines()
		leak = spec.C09Leak{BrokerGoroutines: n, Total: total, Sample: trunc(sample, 3000), WaitedMs: time.Since(t0).Milliseconds()}
		if n == 0 || time.Since(t0) > 15*time.Second {
			break
		}
		time.Sleep(200 * time.Millisecond)
	}
	L.Emit(-1, "", "obs", "leak", leak)
	L.Emit(-1, "", "obs", "hooks", hookCounts.Snapshot())
	_ = fmt.Sprint
}
