package host

import (
	"fmt"
	hclog "github.com/hashicorp/go-hclog"
	"github.com/hashicorp/go-plugin/runner"
	"math/rand"
	"os/exec"
	"strings"
	"sync"
	"sync/atomic"
	"testing"
	"time"

	plugin "github.com/hashicorp/go-plugin"
	"verif/spec"
	"verif/vp"
)

type opCount struct {
	mu     sync.Mutex
	n, err map[string]int
	panics []string
}

func (o *opCount) do(name string, fn func() error) {
	defer func() {
		if r := recover(); r != nil {
			o.mu.Lock()
			o.panics = append(o.panics, fmt.Sprintf("%s: %v", name, r))
			o.mu.Unlock()
		}
	}()
	err := fn()
	o.mu.Lock()
	o.n[name]++
	if err != nil {
		o.err[name]++
	}
	o.mu.Unlock()
}

func dups(ids []uint32) []uint32 {
	seen := map[uint32]bool{}
	var d []uint32
	for _, x := range ids {
		if seen[x] {
			d = append(d, x)
		}
		seen[x] = true
	}
	return d
}

func TestC20(t *testing.T) {
	plugin.VerifSetHook(vp.Jitter(seedEnv(), 2000, &routeHooks))
	forCases(t, 4, func(c spec.Case, e Em) {
		var p spec.C20Case
		param(c, &p)
		var o spec.C20Obs
		oc := &opCount{n: map[string]int{}, err: map[string]int{}}
		var idMu sync.Mutex
		var burstDupHost, burstDupPlugin []uint32
		done := func() {
			// (copies taken under the locks the workers use: after a round that did not finish, workers may
			// still be running when the observation is written)
			cp := func(m map[string]int) map[string]int {
				r := map[string]int{}
				for k, v := range m {
					r[k] = v
				}
				return r
			}
			oc.mu.Lock()
			ops, opErrs, panics := cp(oc.n), cp(oc.err), append([]string(nil), oc.panics...)
			oc.mu.Unlock()
			idMu.Lock()
			out := o
			out.HostIDs, out.PluginIDs = append([]uint32(nil), o.HostIDs...), append([]uint32(nil), o.PluginIDs...)
			bh, bp := append([]uint32(nil), burstDupHost...), append([]uint32(nil), burstDupPlugin...)
			idMu.Unlock()
			out.Ops, out.OpErrs, out.Panics = ops, opErrs, panics
			out.DupHost, out.DupPlugin = append(dups(out.HostIDs), bh...), append(dups(out.PluginIDs), bp...)
			if len(out.HostIDs) > 50 {
				out.HostIDs = out.HostIDs[:50]
			}
			if len(out.PluginIDs) > 50 {
				out.PluginIDs = out.PluginIDs[:50]
			}
			out.Hooks = routeHooks.Snapshot()
			e.Ret("h", "round", out)
		}
		var stopped atomic.Bool
		if p.Kind == "managed" {
			// process-wide state: managed clients being created while CleanupClients runs (own host child:
			// CleanupClients sets the package's Killed flag for good)
			var wg sync.WaitGroup
			for g := 0; g < p.G; g++ {
				wg.Add(1)
				go func() {
					defer wg.Done()
					for i := 0; i < 200*p.Ops && !stopped.Load(); i++ {
						oc.do("NewClient(managed)", func() error {
							cfg := baseClientConfig()
							cfg.Managed = true
							cfg.Cmd = exec.Command("/nonexistent/never-started")
							hostSetFor(cfg, "netrpc")
							cl := plugin.NewClient(cfg)
							_ = cl.Exited()
							if i%8 == 0 {
								// some of the managed clients are started (a scripted in-process runner that
								// prints a valid line) and killed again while others are being created
								cfg.Cmd = nil
								cfg.RunnerFunc = func(l hclog.Logger, cmd *exec.Cmd, tmp string) (runner.Runner, error) {
									return vp.NewScriptRunner(func(r *vp.ScriptRunner) {
										fmt.Fprintf(r.Out, "1|1|tcp|127.0.0.1:1|netrpc\n")
										<-r.Done()
									}), nil
								}
								cl.Start()
								cl.Kill()
							}
							return nil
						})
					}
				}()
			}
			for k := 0; k < 4; k++ {
				time.Sleep(time.Duration(1+p.Seed%5) * time.Millisecond)
				oc.do("CleanupClients", func() error { plugin.CleanupClients(); return nil })
			}
			stopped.Store(true)
			ok, _, dump := within(60*time.Second, wg.Wait)
			o.Returned = ok
			if !ok {
				o.Dump = trunc(dump, 6000)
			}
			done()
			return
		}
		if !strings.HasPrefix(p.Kind, "client-") {
			names := []string{"p0", "p1", "p2"}
			pr, err := newPair(t, p.Kind, names...)
			if err != nil {
				o.SetupErr = err.Error()
				done()
				return
			}
			if p.Seed%2 == 0 {
				// every other round starts with both id counters just below the uint32 wrap, so that the
				// round's concurrent NextId calls cross it
				v := ^uint32(0) - uint32(20+p.Seed%200)
				if pr.kind == "mux" {
					plugin.VerifSetNextId(pr.hostMux, v)
					plugin.VerifSetNextId(pr.plugMux, v)
				} else {
					plugin.VerifSetNextId(pr.hostGRPC, v)
					plugin.VerifSetNextId(pr.plugGRPC, v)
				}
			}
			if p.Seed%2 == 0 {
				// bursts across the wrap: the counter is put 8 below the wrap and 16 goroutines released from a
				// barrier take 4 ids each; every id of a burst must be different (300 bursts per side)
				for _, side := range []string{"host", "plugin"} {
					var b interface{ NextId() uint32 }
					switch {
					case pr.kind == "mux" && side == "host":
						b = pr.hostMux
					case pr.kind == "mux":
						b = pr.plugMux
					case side == "host":
						b = pr.hostGRPC
					default:
						b = pr.plugGRPC
					}
					for burst := 0; burst < 300; burst++ {
						plugin.VerifSetNextId(b, ^uint32(0)-8)
						var got [16][4]uint32
						var start, wg sync.WaitGroup
						start.Add(1)
						for g := 0; g < 16; g++ {
							wg.Add(1)
							go func(g int) {
								defer wg.Done()
								start.Wait()
								for k := 0; k < 4; k++ {
									got[g][k] = b.NextId()
								}
							}(g)
						}
						start.Done()
						wg.Wait()
						seen := map[uint32]bool{}
						for g := range got {
							for _, id := range got[g] {
								if seen[id] {
									idMu.Lock()
									if side == "host" {
										burstDupHost = append(burstDupHost, id)
									} else {
										burstDupPlugin = append(burstDupPlugin, id)
									}
									idMu.Unlock()
								}
								seen[id] = true
							}
						}
						oc.do("nextid-wrap-burst", func() error { return nil })
					}
				}
			}
			nextID := func(side string) uint32 {
				var id uint32
				switch {
				case pr.kind == "mux" && side == "host":
					id = pr.hostMux.NextId()
				case pr.kind == "mux":
					id = pr.plugMux.NextId()
				case side == "host":
					id = pr.hostGRPC.NextId()
				default:
					id = pr.plugGRPC.NextId()
				}
				idMu.Lock()
				if side == "host" {
					o.HostIDs = append(o.HostIDs, id)
				} else {
					o.PluginIDs = append(o.PluginIDs, id)
				}
				idMu.Unlock()
				return id
			}
			ok, _, dump := within(120*time.Second, func() {
				var wg sync.WaitGroup
				pairWorkers := p.G / 2
				if p.Kind == "grpcmux" {
					pairWorkers = 1 // multiplexed establishments are sequential by contract
				}
				for g := 0; g < pairWorkers; g++ {
					wg.Add(1)
					go func(g int) {
						defer wg.Done()
						rr := rand.New(rand.NewSource(p.Seed + int64(g)))
						for i := 0; i < p.Ops && !stopped.Load(); i++ {
							acc := []string{"host", "plugin"}[rr.Intn(2)]
							id := nextID(acc) // the accepting side reserves the id, the other side dials it
							oc.do("pair", func() error {
								okk, msg := pr.matched(id, other(acc), rr.Intn(2) == 0, 0)
								if !okk {
									return fmt.Errorf("%s", msg)
								}
								return nil
							})
						}
					}(g)
				}
				for g := 0; g < p.G/4+1; g++ {
					wg.Add(1)
					go func(g int) {
						defer wg.Done()
						rr := rand.New(rand.NewSource(p.Seed*7 + int64(g)))
						for i := 0; i < p.Ops && !stopped.Load(); i++ {
							if pr.rpcClient != nil {
								oc.do("dispense", func() error {
									raw, err := pr.rpcClient.Dispense(names[rr.Intn(len(names))])
									if err != nil {
										return err
									}
									_, err = raw.(vp.Cli).Do("tag")
									return err
								})
							} else {
								oc.do("call", func() error { _, err := pr.cli.Do("big", "n", 1000); return err })
								oc.do("ping", pr.grpcClient.Ping)
							}
						}
					}(g)
				}
				for g := 0; g < p.G/4+1; g++ {
					wg.Add(1)
					go func(g int) {
						defer wg.Done()
						for i := 0; i < 50*p.Ops && !stopped.Load(); i++ {
							oc.do("nextid", func() error { nextID([]string{"host", "plugin"}[(i+g)%2]); return nil })
						}
					}(g)
				}
				if p.ShutdownRace && pr.kind == "grpc" {
					// listeners being announced on both sides at the moment the broker goes away
					for g := 0; g < 8; g++ {
						wg.Add(1)
						go func(g int) {
							defer wg.Done()
							side := []string{"host", "plugin"}[g%2]
							b := pr.hostGRPC
							if side == "plugin" {
								b = pr.plugGRPC
							}
							for i := 0; i < 2000; i++ {
								failed := false
								oc.do("accept-storm", func() error {
									ln, err := b.Accept(nextID(side))
									if err != nil {
										failed = true
										return err
									}
									ln.Close()
									return nil
								})
								if failed {
									return
								}
							}
						}(g)
					}
				}
				if p.ShutdownRace {
					wg.Add(1)
					go func() {
						defer wg.Done()
						time.Sleep(time.Duration(5+p.Seed%60) * time.Millisecond)
						oc.do("close", func() error { pr.close(); return nil })
						if pr.grpcServer != nil && p.Seed%2 == 0 {
							oc.do("server-stop", func() error { pr.grpcServer.Stop(); return nil })
						}
						stopped.Store(true)
					}()
				}
				wg.Wait()
			})
			o.Returned = ok
			if !ok {
				o.Dump = trunc(dump, 6000)
			}
			stopped.Store(true)
			within(20*time.Second, pr.close)
			done()
			return
		}
		// one real Client hammered by G goroutines; the plugin serves it all concurrently
		proto := strings.TrimPrefix(p.Kind, "client-")
		wire, mux := proto, false
		if proto == "grpcmux" {
			wire, mux = "grpc", true
		}
		cfg := baseClientConfig()
		cfg.GRPCBrokerMultiplex = mux
		var perr lockedBuf
		cfg.Stderr = &perr
		hostSetFor(cfg, wire, "kv", "p1", "p2")
		pcfg := pluginCfgFor(wire)
		pcfg["names"] = []string{"kv", "p1", "p2"}
		if p.AutoMTLS {
			cfg.AutoMTLS = true
			pcfg["earlyStderrMs"] = 400
		}
		l := prepare(c.ID, "", pcfg, cfg, "cmd")
		defer l.hardKill()
		var started atomic.Bool
		var second *plugin.Client
		if p.SecondHost {
			if _, err := l.Client.Start(); err != nil {
				o.SetupErr = "start: " + err.Error()
				done()
				return
			}
			started.Store(true)
			if _, err := l.Client.Client(); err != nil {
				o.SetupErr = "client: " + err.Error()
				done()
				return
			}
			bcfg := baseClientConfig()
			var berr lockedBuf
			bcfg.Stderr = &berr
			bcfg.SyncStdout, bcfg.SyncStderr = &lockedBuf{}, &lockedBuf{}
			hostSetFor(bcfg, wire, "kv", "p1", "p2")
			bcfg.Reattach = l.Client.ReattachConfig()
			second = plugin.NewClient(bcfg)
			if _, err := second.Client(); err != nil {
				o.SetupErr = "second host: " + err.Error()
				done()
				return
			}
		}
		ok, _, dump := within(120*time.Second, func() {
			var wg sync.WaitGroup
			for g := 0; g < p.G; g++ {
				wg.Add(1)
				go func(g int) {
					defer wg.Done()
					rr := rand.New(rand.NewSource(p.Seed*13 + int64(g)))
					for i := 0; i < p.Ops && !stopped.Load(); i++ {
						switch rr.Intn(9) {
						case 0:
							oc.do("Start", func() error {
								_, err := l.Client.Start()
								if err == nil {
									started.Store(true)
								}
								return err
							})
						case 1:
							oc.do("Client", func() error { _, err := l.Client.Client(); return err })
						case 2:
							oc.do("Exited", func() error { l.Client.Exited(); return nil })
						case 3:
							oc.do("ID", func() error { l.Client.ID(); return nil })
						case 4:
							oc.do("ReattachConfig", func() error { l.Client.ReattachConfig(); return nil })
						case 5:
							if started.Load() { // documented precondition: only after a Start returned
								oc.do("NegotiatedVersion", func() error { l.Client.NegotiatedVersion(); return nil })
							}
						case 6:
							oc.do("Protocol", func() error { l.Client.Protocol(); return nil })
						default:
							oc.do("Dispense+call", func() error {
								cp, err := l.Client.Client()
								if err != nil {
									return err
								}
								raw, err := cp.Dispense([]string{"kv", "p1", "p2"}[rr.Intn(3)])
								if err != nil {
									return err
								}
								cli := raw.(vp.Cli)
								if _, err := cli.Do("big", "n", 3000); err != nil {
									return err
								}
								if p.SecondHost {
									// the plugin writes to its stdout and stderr (shipped to every connected host)
									if _, err := cli.Do("write", "plan", map[string]any{"seed": rr.Intn(1000), "frames": []map[string]any{{"s": "o", "n": 40 + rr.Intn(2000)}, {"s": "e", "n": 40 + rr.Intn(2000)}, {"s": "o", "n": 10}}}); err != nil {
										return err
									}
								}
								// a brokered connection served by the plugin (distinct ids; sequential under mux)
								if !mux && rr.Intn(2) == 0 {
									switch x := cli.(type) {
									case *vp.RPCCli:
										m, err := cli.Do("mux-nextid")
										if err != nil {
											return err
										}
										id := uint32(vp.Int(m, "id"))
										ch := make(chan error, 1)
										go func() { _, err := cli.Do("mux-accept", "id", id, "nonce", "p", "len", 50); ch <- err }()
										_, err = vp.MuxDial(x.Broker, id, "h", 50)
										if e2 := <-ch; err == nil {
											err = e2
										}
										return err
									case *vp.GRPCCli:
										m, err := cli.Do("grpc-nextid")
										if err != nil {
											return err
										}
										id := uint32(vp.Int(m, "id"))
										if _, err := cli.Do("grpc-accept", "id", id, "nonce", "p"); err != nil {
											return err
										}
										r := vp.GRPCDialPing(x.Broker, id, 20*time.Second, true)
										if r.DialErr != "" || r.PingErr != "" {
											return fmt.Errorf("%s%s", r.DialErr, r.PingErr)
										}
									}
								}
								return nil
							})
						}
					}
				}(g)
			}
			if p.ShutdownRace {
				wg.Add(1)
				go func() {
					defer wg.Done()
					time.Sleep(time.Duration(20+p.Seed%300) * time.Millisecond)
					for k := 0; k < 2; k++ {
						wg.Add(1)
						go func() { defer wg.Done(); oc.do("Kill", func() error { l.Client.Kill(); return nil }) }()
					}
					time.Sleep(50 * time.Millisecond)
					stopped.Store(true)
				}()
			}
			wg.Wait()
		})
		o.Returned = ok
		if !ok {
			o.Dump = trunc(dump, 6000)
		}
		stopped.Store(true)
		if second != nil {
			within(30*time.Second, second.Kill)
		}
		within(30*time.Second, l.Client.Kill)
		for _, ln := range strings.Split(string(perr.Bytes()), "\n") {
			if strings.Contains(ln, "panic:") || strings.Contains(ln, "fatal error:") || strings.Contains(ln, "DATA RACE") {
				o.PluginStderr += trunc(ln, 300) + "\n"
			}
		}
		done()
	})
}
