package host

import (
	"crypto/sha256"
	"crypto/tls"
	"encoding/hex"
	"errors"
	"fmt"
	"os"
	"os/exec"
	"path/filepath"
	"strconv"
	"testing"
	"time"

	plugin "github.com/hashicorp/go-plugin"
	"verif/spec"
	"verif/vp"
)

func TestC14(t *testing.T) {
	forCases(t, 12, func(c spec.Case, e Em) {
		var p spec.C14Case
		param(c, &p)
		var o spec.C14Obs
		done := func() { e.Ret("h", "cell", o) }
		d := caseDir(c.ID, "x")
		serverCert, serverKey, _ := vp.GenCert()
		hostCert, hostKey, _ := vp.GenCert()
		otherCert, _, _ := vp.GenCert()
		mkCfgTLS := func(clientTLS string) *plugin.ClientConfig {
			cfg := baseClientConfig()
			cfg.AllowedProtocols = protoList(p.Allowed)
			cfg.GRPCBrokerMultiplex = p.Mux
			cfg.StartTimeout = 8 * time.Second
			hostSetFor(cfg, p.Proto)
			if len(p.VerHost) > 0 {
				cfg.Plugins = nil
				cfg.VersionedPlugins = map[int]plugin.PluginSet{}
				for _, v := range p.VerHost {
					cfg.VersionedPlugins[v] = vp.Set(p.VerProto[strconv.Itoa(v)], v, []string{"kv"}, nil)
				}
			}
			switch clientTLS {
			case "static":
				// usable in both roles: brokered connections make each side a TLS server too
				cfg.TLSConfig = &tls.Config{RootCAs: vp.PoolOf(serverCert), Certificates: []tls.Certificate{vp.KeyPair(hostCert, hostKey)}, ServerName: "localhost", MinVersion: tls.VersionTLS12}
			case "wrongca":
				cfg.TLSConfig = &tls.Config{RootCAs: vp.PoolOf(otherCert), Certificates: []tls.Certificate{vp.KeyPair(hostCert, hostKey)}, ServerName: "localhost", MinVersion: tls.VersionTLS12}
			case "auto":
				cfg.AutoMTLS = true
			case "auto+static":
				// both ways of asking for TLS at once: AutoMTLS wins for launches; a reattach cannot do
				// AutoMTLS, but the host did configure TLS and must not end up talking plain text
				cfg.AutoMTLS = true
				cfg.TLSConfig = &tls.Config{RootCAs: vp.PoolOf(serverCert), Certificates: []tls.Certificate{vp.KeyPair(hostCert, hostKey)}, ServerName: "localhost", MinVersion: tls.VersionTLS12}
			}
			return cfg
		}
		mkCfg := func() *plugin.ClientConfig { return mkCfgTLS(p.ClientTLS) }
		pcfg := pluginCfgFor(p.Proto)
		if len(p.VerPlugin) > 0 {
			ver := map[string]string{}
			for _, v := range p.VerPlugin {
				ver[strconv.Itoa(v)] = p.VerProto[strconv.Itoa(v)]
			}
			pcfg = map[string]any{"versioned": ver}
		}
		if p.ServerTLS == "static" {
			os.WriteFile(filepath.Join(d, "cert.pem"), serverCert, 0o600)
			os.WriteFile(filepath.Join(d, "key.pem"), serverKey, 0o600)
			os.WriteFile(filepath.Join(d, "hostcert.pem"), hostCert, 0o600)
			pcfg["tlsCert"], pcfg["tlsKey"] = filepath.Join(d, "cert.pem"), filepath.Join(d, "key.pem")
			pcfg["tlsRootCA"] = filepath.Join(d, "hostcert.pem")
		}
		var unset []string
		if p.OldPlugin {
			unset = append(unset, "PLUGIN_MULTIPLEX_GRPC")
		}
		if p.ServerTLS == "ignorecert" {
			// a plugin that does not know AutoMTLS (older library, other language, a runner that does not
			// forward the variable): it answers without a certificate and serves plain text
			unset = append(unset, "PLUGIN_CLIENT_CERT")
		}
		if len(unset) > 0 {
			pcfg["unsetEnv"] = unset
		}
		if p.RawLine != "" {
			pcfg = map[string]any{"mode": "raw", "lineHex": hex.EncodeToString([]byte(p.RawLine + "\n")), "after": "hang", "ctl": ""}
		}
		cfg := mkCfg()
		if p.Launch == "reattach" && p.ClientTLS == "auto+static" {
			// the plugin to reattach to is started by a client that matches the plugin's own TLS mode, so
			// that it really is a plain-text / static-TLS plugin when the cell's client reattaches
			cfg = mkCfgTLS(p.ServerTLS)
		}
		if p.Conflict != "" {
			l := prepare(c.ID, "", pcfg, cfg, "cmd")
			switch p.Conflict {
			case "cmd+reattach":
				cfg.Reattach = &plugin.ReattachConfig{}
			case "secure+reattach":
				cfg.Cmd = nil
				cfg.Reattach = &plugin.ReattachConfig{}
				cfg.SecureConfig = &plugin.SecureConfig{Checksum: []byte{1}, Hash: sha256.New()}
			case "none-set":
				cfg.Cmd = nil
			}
			ok, _, _ := within(20*time.Second, func() {
				_, err := l.Client.Start()
				o.StartErr = errStr(err)
				o.IsSecureErr = errors.Is(err, plugin.ErrSecureConfigAndReattach)
			})
			o.StartReturned = ok
			o.Pid = l.pid()
			o.StateAfterErr = procState(o.Pid)
			within(20*time.Second, l.Client.Kill)
			l.hardKill()
			done()
			return
		}
		launch := p.Launch
		if launch == "reattach" {
			launch = "cmd"
		}
		l := prepare(c.ID, "", pcfg, cfg, launch)
		defer l.hardKill()
		client := l.Client
		// the client the cell talks through
		start := func(cl *plugin.Client) {
			ok, _, _ := within(30*time.Second, func() {
				defer func() {
					if r := recover(); r != nil {
						o.Panic = fmt.Sprint(r)
					}
				}()
				_, err := cl.Start()
				o.StartErr = errStr(err)
				o.IsMuxErr = errors.Is(err, plugin.ErrGRPCBrokerMuxNotSupported)
			})
			o.StartReturned = ok
			if !ok {
				o.Hung = "Start"
			}
		}
		if p.Launch == "reattach" {
			// A starts the plugin with a configuration that certainly works for A's purposes
			// (same TLS / allowed settings, multiplexing off: it is not supported with reattach)
			acfg := l.Cfg
			acfg.GRPCBrokerMultiplex = false
			acfg.AllowedProtocols = []plugin.Protocol{plugin.ProtocolNetRPC, plugin.ProtocolGRPC}
			if _, err := l.Client.Start(); err != nil {
				o.SetupErr = "start of the plugin to reattach to: " + err.Error()
				done()
				return
			}
			bcfg := mkCfg()
			bcfg.Reattach = l.Client.ReattachConfig()
			if p.ClientTLS == "auto" {
				// B cannot know A's one-time certificate: the documented-unsupported combination
				bcfg.AutoMTLS = true
			}
			client = plugin.NewClient(bcfg)
			defer func() { within(20*time.Second, l.Client.Kill) }()
		}
		start(client)
		o.Pid = l.pid()
		if o.StartErr != "" || !o.StartReturned {
			if o.StartReturned {
				// a refused Start stays refused when the same client is asked again
				within(30*time.Second, func() {
					_, err2 := client.Start()
					o.RetryOK, o.RetryErr = err2 == nil, errStr(err2)
					o.RetryProtocol = string(client.Protocol())
				})
			}
			o.StateAfterErr = waitState(o.Pid, 5*time.Second, "gone", "Z")
			if p.Launch == "reattach" {
				o.StateAfterErr = "n/a"
			}
			ok, _, _ := within(30*time.Second, client.Kill)
			o.KillReturned = ok
			done()
			return
		}
		o.Protocol = string(client.Protocol())
		ok, _, _ := within(240*time.Second, func() {
			defer func() {
				if r := recover(); r != nil {
					o.Panic = fmt.Sprint(r)
				}
			}()
			cp, err := client.Client()
			o.ClientErr = errStr(err)
			if err != nil {
				return
			}
			step := func(name string, fn func() error) bool {
				// a watchdog, not a deadline: 90 s of time in which this process was being scheduled (within counts
				// only ticks that arrived on time). 25 s fired once for every 8 MiB transfer of a run on a loaded copy
				// of the sandbox (DESIGN 7.4); a call that never returns is reported all the same, only later.
				okk, _, _ := within(90*time.Second, func() {
					if err := fn(); err != nil {
						switch name {
						case "ping":
							o.PingErr = err.Error()
						case "call":
							o.CallErr = err.Error()
						case "h2p":
							o.H2PErr = err.Error()
						case "p2h":
							o.P2HErr = err.Error()
						case "big":
							o.BigErr = err.Error()
						case "bigbrokered":
							o.BigBrokeredErr = err.Error()
						}
					}
				})
				if !okk {
					o.Hung = name
				}
				return okk
			}
			if !step("ping", cp.Ping) {
				return
			}
			var cli vp.Cli
			if !step("call", func() error {
				raw, err := cp.Dispense("kv")
				if err != nil {
					return fmt.Errorf("dispense: %w", err)
				}
				cli = raw.(vp.Cli)
				m, err := cli.Do("tag")
				o.Tag = vp.Str(m, "label")
				return err
			}) || cli == nil || o.CallErr != "" {
				return
			}
			if !step("h2p", func() error {
				switch x := cli.(type) {
				case *vp.RPCCli:
					ch := make(chan error, 1)
					go func() { _, err := cli.Do("mux-accept", "id", 9001, "nonce", "p", "len", 100); ch <- err }()
					_, err := vp.MuxDial(x.Broker, 9001, "h", 100)
					if e2 := <-ch; err == nil {
						err = e2
					}
					return err
				case *vp.GRPCCli:
					if _, err := cli.Do("grpc-accept", "id", 9001, "nonce", "p"); err != nil {
						return err
					}
					r := vp.GRPCDialPing(x.Broker, 9001, 20*time.Second, true)
					if r.DialErr != "" || r.PingErr != "" {
						return fmt.Errorf("%s%s", r.DialErr, r.PingErr)
					}
					if r.Msg != "9001/p" {
						return fmt.Errorf("answered by %q", r.Msg)
					}
					o.H2PAuth = r.Auth
				}
				return nil
			}) {
				return
			}
			if !step("p2h", func() error {
				switch x := cli.(type) {
				case *vp.RPCCli:
					ch := make(chan error, 1)
					go func() { _, err := vp.MuxAccept(x.Broker, 9002, "h", 100); ch <- err }()
					_, err := cli.Do("mux-dial", "id", 9002, "nonce", "p", "len", 100)
					if e2 := <-ch; err == nil {
						err = e2
					}
					return err
				case *vp.GRPCCli:
					h := vp.GRPCAcceptServe(x.Broker, 9002, "h")
					defer h.Stop()
					m, err := cli.Do("grpc-dial", "id", 9002, "timeoutMs", 20000)
					if err != nil {
						return err
					}
					if vp.Str(m, "msg") != "9002/h" {
						return fmt.Errorf("plugin's dial: %v", m)
					}
					o.P2HAuth = vp.Str(m, "auth")
				}
				return nil
			}) {
				return
			}
			if !step("big", func() error {
				m, err := cli.Do("big", "n", 8<<20)
				o.BigLen = len(vp.Str(m, "s"))
				return err
			}) {
				return
			}
			if g, isGRPC := cli.(*vp.GRPCCli); isGRPC {
				const bigN = 5 << 20
				if !step("bigbrokered", func() error {
					// a 5 MiB response on a brokered connection, in both directions
					if _, err := cli.Do("grpc-accept", "id", 9003, "nonce", fmt.Sprint("big:", bigN)); err != nil {
						return err
					}
					r := vp.GRPCDialPing(g.Broker, 9003, 30*time.Second, true)
					if r.DialErr != "" || r.PingErr != "" {
						return fmt.Errorf("host dials, plugin answers %d bytes: %s%s", bigN, r.DialErr, r.PingErr)
					}
					if len(r.Msg) < bigN {
						return fmt.Errorf("host dials: answer of %d bytes, want more than %d", len(r.Msg), bigN)
					}
					h := vp.GRPCAcceptServe(g.Broker, 9004, fmt.Sprint("big:", bigN))
					defer h.Stop()
					m, err := cli.Do("grpc-dial", "id", 9004, "timeoutMs", 30000, "lenOnly", true)
					if err != nil {
						return err
					}
					if s := vp.Str(m, "dialErr") + vp.Str(m, "pingErr"); s != "" {
						return fmt.Errorf("plugin dials, host answers %d bytes: %s", bigN, s)
					}
					if vp.Int(m, "msgLen") < bigN {
						return fmt.Errorf("plugin dials: answer of %d bytes", vp.Int(m, "msgLen"))
					}
					return nil
				}) {
					return
				}
			}
			raw, err := cp.Dispense("no-such-plugin")
			o.UnknownErr = errStr(err)
			o.UnknownNil = err == nil && raw == nil
		})
		if !ok && o.Hung == "" {
			o.Hung = "session"
		}
		kok, _, _ := within(30*time.Second, client.Kill)
		o.KillReturned = kok
		_ = exec.Command
		done()
	})
}
