package host

import (
	"bufio"
	"encoding/json"
	"errors"
	"fmt"
	"net"
	"os"
	"os/exec"
	"path/filepath"
	"strconv"
	"strings"
	"sync"
	"sync/atomic"
	"syscall"
	"time"

	hclog "github.com/hashicorp/go-hclog"
	plugin "github.com/hashicorp/go-plugin"
	"github.com/hashicorp/go-plugin/runner"
	"verif/spec"
	"verif/vp"
)

// launched is one real vplugin process started through a plugin.Client.
type launched struct {
	Client  *plugin.Client
	Cfg     *plugin.ClientConfig
	Dir     string // the plugin's private sandbox (its TMPDIR)
	HostDir string // host-side private temp dir (custom runner socket dir parent)
	Ctl     string
	Marker  string
	PidFile string
	Proc    *vp.ProcRunner

	mu      sync.Mutex
	seenPid int // (no pid file) pid found by scanning /proc for this case's sandbox path
	ctlConn net.Conn
	ctlR    *bufio.Reader
}

func baseClientConfig() *plugin.ClientConfig {
	return &plugin.ClientConfig{
		HandshakeConfig:  plugin.HandshakeConfig{MagicCookieKey: spec.CookieKey, MagicCookieValue: spec.CookieValue},
		AllowedProtocols: []plugin.Protocol{plugin.ProtocolNetRPC, plugin.ProtocolGRPC},
		StartTimeout:     10 * time.Second,
		Logger:           quietLogger(),
	}
}

// prepare fills in the launch part of ccfg and the plumbing part of pcfg.
// launch: "cmd" | "runner" | "runner-translate" (custom runner that sees the
// socket directory under another spelling than the plugin does) | "runner-ctx" /
// "runner-ctx-slow" (custom runner whose Kill honours its context, without / with
// a 400 ms grace period) | "runner-forward" (custom runner through which the host
// reaches the plugin's unix sockets as TCP forwarders: translation changes the
// network kind).
func prepare(caseID int, sub string, pcfg map[string]any, ccfg *plugin.ClientConfig, launch string, extraEnv ...string) *launched {
	l := &launched{Cfg: ccfg}
	l.Dir = caseDir(caseID, sub+"p")
	l.HostDir = caseDir(caseID, sub+"h")
	l.Ctl = filepath.Join(l.Dir, "ctl.sock")
	l.Marker = filepath.Join(l.Dir, "marker")
	l.PidFile = filepath.Join(l.Dir, "pid")
	if pcfg == nil {
		pcfg = map[string]any{}
	}
	if _, ok := pcfg["ctl"]; !ok {
		pcfg["ctl"] = l.Ctl
	}
	pcfg["marker"] = l.Marker
	pcfg["tmpDir"] = l.Dir
	pcfg["startedFile"] = l.PidFile
	cf := filepath.Join(l.Dir, "cfg.json")
	b, _ := json.Marshal(pcfg)
	os.WriteFile(cf, b, 0o644)
	switch launch {
	case "cmd":
		ccfg.Cmd = exec.Command(pluginBin, cf)
		ccfg.Cmd.Env = append([]string{"TMPDIR=" + l.Dir}, extraEnv...)
	default:
		if ccfg.UnixSocketConfig == nil {
			ccfg.UnixSocketConfig = &plugin.UnixSocketConfig{}
		}
		ccfg.UnixSocketConfig.TempDir = l.HostDir
		ccfg.RunnerFunc = func(lg hclog.Logger, cmd *exec.Cmd, tmp string) (runner.Runner, error) {
			cmd.Env = append(cmd.Env, "TMPDIR="+l.Dir)
			cmd.Env = append(cmd.Env, extraEnv...)
			var hostPrefix, plugPrefix string
			if launch == "runner-translate" {
				// the plugin runs in another directory and knows the socket directory
				// only by a relative name: an address that was not translated is
				// useless to the host
				os.Symlink(tmp, filepath.Join(l.Dir, "sock"))
				for i, kv := range cmd.Env {
					if strings.HasPrefix(kv, plugin.EnvUnixSocketDir+"=") {
						cmd.Env[i] = plugin.EnvUnixSocketDir + "=sock"
					}
				}
				hostPrefix, plugPrefix = tmp, "sock"
			}
			pr, err := vp.NewProcRunner(cmd, pluginBin, cf)
			if err != nil {
				return nil, err
			}
			pr.HostPrefix, pr.PluginPrefix = hostPrefix, plugPrefix
			pr.ForwardTCP = launch == "runner-forward"
			if launch == "runner-stdout-err" {
				pr.StdoutErr = errors.New("log stream: connection reset")
			}
			if strings.HasPrefix(launch, "runner-ctx") {
				pr.KillHonoursCtx = true
				if launch == "runner-ctx-slow" {
					pr.KillGrace = 400 * time.Millisecond
				}
			}
			if launch == "runner-translate" {
				pr.Cmd.Dir = l.Dir
			}
			l.Proc = pr
			return pr, nil
		}
	}
	l.Client = plugin.NewClient(ccfg)
	return l
}

// pid of the plugin process (0 if it never wrote its pid file).
func (l *launched) pid() int {
	b, err := os.ReadFile(l.PidFile)
	if err == nil {
		// (a file without a number in it counts as no file)
		if n, _ := strconv.Atoi(strings.TrimSpace(string(b))); n <= 0 {
			err = os.ErrNotExist
		}
	}
	if err != nil {
		// killed before it could write the file: a custom runner of the harness knows the pid anyway
		if l.Proc != nil && l.Proc.Cmd != nil && l.Proc.Cmd.Process != nil {
			return l.Proc.Cmd.Process.Pid
		}
		// a plain command launch: look for a process whose command line names this case's sandbox
		l.mu.Lock()
		defer l.mu.Unlock()
		if l.seenPid == 0 && l.Dir != "" {
			l.seenPid = findProcByArg(l.Dir + "/")
		}
		return l.seenPid
	}
	n, _ := strconv.Atoi(strings.TrimSpace(string(b)))
	return n
}

// procState returns the state letter from /proc/<pid>/stat, or "gone".
//
// Process ids are recycled (pid_max is 32768 here and every thread takes one), and /proc/<id> answers for
// thread ids too: on a loaded machine the id of a plugin that has ended can belong to somebody else a few
// seconds later. Every plugin process of the harness is started by this host process, so an id counts as
// "the plugin" only while it names a thread-group leader whose parent is this process.
func procState(pid int) string {
	if pid <= 0 {
		return "nopid"
	}
	b, err := os.ReadFile(fmt.Sprintf("/proc/%d/stat", pid))
	if err != nil {
		return "gone"
	}
	s := string(b)
	i := strings.LastIndex(s, ")")
	if i < 0 || i+2 >= len(s) {
		return "?"
	}
	f := strings.Fields(s[i+2:]) // f[0] state, f[1] ppid
	if len(f) < 2 {
		return "?"
	}
	if ppid, _ := strconv.Atoi(f[1]); ppid != os.Getpid() {
		procForeign.Add(1)
		return "gone"
	}
	if st, err := os.ReadFile(fmt.Sprintf("/proc/%d/status", pid)); err == nil {
		for _, ln := range strings.Split(string(st), "\n") {
			if strings.HasPrefix(ln, "Tgid:") && strings.TrimSpace(strings.TrimPrefix(ln, "Tgid:")) != strconv.Itoa(pid) {
				procForeign.Add(1)
				return "gone"
			}
		}
	}
	return f[0]
}

// killOurs signals a plugin process of this host process; an id that no longer names one (ended and
// recycled) is left alone.
func killOurs(pid int, sig syscall.Signal) {
	if st := procState(pid); st != "gone" && st != "nopid" && st != "?" {
		syscall.Kill(pid, sig)
	}
}

// procForeign counts the times an id turned out to belong to somebody else.
var procForeign atomic.Int64

// waitState polls until the process state is one of want or d elapsed.
func waitState(pid int, d time.Duration, want ...string) string {
	t0 := time.Now()
	for {
		st := procState(pid)
		for _, w := range want {
			if st == w {
				return st
			}
		}
		if time.Since(t0) > d {
			return st
		}
		time.Sleep(5 * time.Millisecond)
	}
}

// findProcByArg returns the pid of a live process whose command line contains substr (0 if none).
func findProcByArg(substr string) int {
	ents, err := os.ReadDir("/proc")
	if err != nil {
		return 0
	}
	self := os.Getpid()
	for _, e := range ents {
		n, err := strconv.Atoi(e.Name())
		if err != nil || n == self {
			continue
		}
		b, err := os.ReadFile("/proc/" + e.Name() + "/cmdline")
		if err == nil && strings.Contains(string(b), substr) {
			return n
		}
	}
	return 0
}

func terminated(st string) bool { return st == "gone" || st == "Z" || st == "X" }

// ctl sends one side-channel command to the plugin.
func (l *launched) ctl(op string, kv ...any) (vp.M, error) {
	l.mu.Lock()
	defer l.mu.Unlock()
	if l.ctlConn == nil {
		var c net.Conn
		var err error
		for i := 0; i < 200; i++ {
			c, err = net.Dial("unix", l.Ctl)
			if err == nil {
				break
			}
			time.Sleep(10 * time.Millisecond)
		}
		if err != nil {
			return nil, err
		}
		l.ctlConn, l.ctlR = c, bufio.NewReaderSize(c, 1<<20)
	}
	m := vp.M{"op": op}
	for i := 0; i+1 < len(kv); i += 2 {
		m[kv[i].(string)] = kv[i+1]
	}
	b, _ := json.Marshal(m)
	l.ctlConn.SetDeadline(time.Now().Add(120 * time.Second))
	if _, err := l.ctlConn.Write(append(b, '\n')); err != nil {
		return nil, err
	}
	line, err := l.ctlR.ReadString('\n')
	if err != nil {
		return nil, err
	}
	var resp struct {
		Res vp.M   `json:"res"`
		Err string `json:"err"`
	}
	if err := json.Unmarshal([]byte(line), &resp); err != nil {
		return nil, err
	}
	if resp.Err != "" {
		return nil, fmt.Errorf("%s", resp.Err)
	}
	return resp.Res, nil
}

func (l *launched) closeCtl() {
	l.mu.Lock()
	if l.ctlConn != nil {
		l.ctlConn.Close()
		l.ctlConn = nil
	}
	l.mu.Unlock()
}

// hardKill makes sure the plugin process is gone at the end of a case.
func (l *launched) hardKill() {
	if p := l.pid(); p > 0 {
		killOurs(p, syscall.SIGCONT)
		killOurs(p, syscall.SIGKILL)
	}
	l.closeCtl()
}

// pluginSets configures matching plugin sets on both sides for one protocol.
func pluginCfgFor(proto string) map[string]any {
	return map[string]any{"legacy": map[string]any{"version": 1, "proto": proto}}
}

func hostSetFor(ccfg *plugin.ClientConfig, proto string, names ...string) {
	if len(names) == 0 {
		names = []string{"kv"}
	}
	ccfg.ProtocolVersion = 1
	ccfg.Plugins = vp.Set(proto, 1, names, nil)
}

func listDir(dir string) []string {
	var out []string
	filepath.Walk(dir, func(p string, info os.FileInfo, err error) error {
		if err != nil || p == dir {
			return nil
		}
		rel, _ := filepath.Rel(dir, p)
		t := "f"
		if info.IsDir() {
			t = "d"
		} else if info.Mode()&os.ModeSocket != 0 {
			t = "s"
		} else if info.Mode()&os.ModeSymlink != 0 {
			t = "l"
		}
		out = append(out, t+":"+rel)
		return nil
	})
	return out
}
