package host

import (
	"encoding/binary"
	"fmt"
	"io"
	"net"
	"net/rpc"
	"strconv"
	"strings"
	"time"

	"github.com/hashicorp/yamux"
	"verif/spec"
)

// c09Raw: the plugin-side MuxBroker of a real RPCServer (in this process) facing a peer that speaks the
// wire protocol by hand: yamux, control stream, the two stdio streams, then brokered streams. The step
// "raw-truncated-headers:<n>" opens n streams that carry only two of the four id bytes and are closed
// again; after every third of them, and twice at the end, a genuine Dispense + dial must still work.
func c09Raw(c spec.Case, p spec.C09Case, e Em) {
	addr, stop := inprocServer()
	defer stop()
	var end spec.C09End
	fail := func(msg string) { e.Note("pair-error", msg) }
	conn, err := net.DialTimeout("tcp", addr, 5*time.Second)
	if err != nil {
		fail(err.Error())
		return
	}
	defer conn.Close()
	ycfg := yamux.DefaultConfig()
	ycfg.LogOutput = discard{}
	sess, err := yamux.Client(conn, ycfg)
	if err != nil {
		fail(err.Error())
		return
	}
	ctl, err := sess.Open()
	if err != nil {
		fail(err.Error())
		return
	}
	for i := 0; i < 2; i++ {
		ss, err := sess.Open()
		if err != nil {
			fail(err.Error())
			return
		}
		go io.Copy(io.Discard, ss)
	}
	cl := rpc.NewClient(ctl)
	// one genuine dispense: Dispenser.Dispense reserves an id and accepts it; dial it by hand
	dispense := func() error {
		var id uint32
		call := cl.Go("Dispenser.Dispense", "kv", &id, nil)
		select {
		case <-call.Done:
			if call.Error != nil {
				return fmt.Errorf("Dispense: %w", call.Error)
			}
		case <-time.After(brokerH):
			return fmt.Errorf("Dispense did not return in %v", brokerH)
		}
		st, err := sess.Open()
		if err != nil {
			return err
		}
		defer st.Close()
		st.SetDeadline(time.Now().Add(brokerH))
		if err := binary.Write(st, binary.LittleEndian, id); err != nil {
			return fmt.Errorf("write id: %w", err)
		}
		var ack uint32
		if err := binary.Read(st, binary.LittleEndian, &ack); err != nil {
			return fmt.Errorf("no ack for id %d: %w", id, err)
		}
		if ack != id {
			return fmt.Errorf("ack %d for id %d", ack, id)
		}
		return nil
	}
	for _, st := range p.Steps {
		name, arg, _ := strings.Cut(st, ":")
		var s spec.C09Step
		s.Step = st
		e.Call("h", st, nil)
		ok, el, dump := within(4*brokerH, func() {
			if name != "raw-truncated-headers" {
				return
			}
			n, _ := strconv.Atoi(arg)
			for i := 0; i < n; i++ {
				if x, err := sess.Open(); err == nil {
					x.Write([]byte{0x01, 0x02})
					x.Close()
				}
				if i%3 == 2 {
					if err := dispense(); err != nil {
						s.Errs = append(s.Errs, fmt.Sprintf("after %d truncated headers: %v", i+1, err))
						return
					}
				}
			}
			time.Sleep(200 * time.Millisecond)
		})
		s.Returned, s.Ms = ok, el.Milliseconds()
		if !ok {
			s.Dump = trunc(dump, 5000)
		}
		e.Ret("h", st, s)
	}
	for i := 0; i < 2; i++ {
		var f spec.C09Fresh
		f.Dir = "host"
		e.Call("h", "fresh", nil)
		ok, el, dump := within(2*brokerH, func() {
			err := dispense()
			f.OK, f.Err = err == nil, errStr(err)
		})
		f.Returned, f.Ms = ok, el.Milliseconds()
		if !ok {
			f.Dump = trunc(dump, 5000)
		}
		e.Ret("h", "fresh", f)
	}
	cl.Close()
	sess.Close()
	end.ClosedOK = true
	e.Obs("end", end)
}
