package host

import (
	"crypto/tls"
	"encoding/hex"
	"encoding/json"
	"fmt"
	"os"
	"os/exec"
	"path/filepath"
	"reflect"
	"testing"
	"time"

	hclog "github.com/hashicorp/go-hclog"
	plugin "github.com/hashicorp/go-plugin"
	"github.com/hashicorp/go-plugin/runner"
	"verif/spec"
	"verif/vp"
)

func hostSets(cfg *plugin.ClientConfig, sets string) {
	mk := func(v int) plugin.PluginSet { return vp.Set("netrpc", v, []string{"kv"}, nil) }
	switch sets {
	case "legacy1":
		cfg.ProtocolVersion = 1
		cfg.Plugins = mk(1)
	case "versioned12":
		cfg.VersionedPlugins = map[int]plugin.PluginSet{1: mk(1), 2: mk(2)}
	case "v0":
		cfg.ProtocolVersion = 0
		cfg.Plugins = mk(0)
	case "versioned02":
		cfg.VersionedPlugins = map[int]plugin.PluginSet{0: mk(0), 2: mk(2)}
	case "versioned8_10":
		cfg.VersionedPlugins = map[int]plugin.PluginSet{8: mk(8), 10: mk(10)}
	case "both123":
		cfg.ProtocolVersion = 1
		cfg.Plugins = mk(1)
		cfg.VersionedPlugins = map[int]plugin.PluginSet{2: mk(2), 3: mk(3)}
	}
}

func protoList(a []string) []plugin.Protocol {
	if a == nil {
		return nil
	}
	out := make([]plugin.Protocol, 0, len(a))
	for _, s := range a {
		out = append(out, plugin.Protocol(s))
	}
	return out
}

// hangAfter is the hang threshold H = max(4N, N+15s) for a nominal bound N.
func hangAfter(n time.Duration) time.Duration {
	h := 4 * n
	if n+15*time.Second > h {
		h = n + 15*time.Second
	}
	return h
}

func writeCfg(dir string, cfg any) string {
	p := filepath.Join(dir, "cfg.json")
	b, _ := json.Marshal(cfg)
	os.WriteFile(p, b, 0o644)
	return p
}

func TestC01(t *testing.T) {
	forCases(t, 48, func(c spec.Case, e Em) {
		var p spec.C01Case
		param(c, &p)
		cfg := &plugin.ClientConfig{
			HandshakeConfig:     plugin.HandshakeConfig{MagicCookieKey: spec.CookieKey, MagicCookieValue: spec.CookieValue},
			AllowedProtocols:    protoList(p.Allowed),
			StartTimeout:        time.Duration(p.TimeoutMs) * time.Millisecond,
			GRPCBrokerMultiplex: p.Mux,
			Logger:              quietLogger(),
		}
		hostSets(cfg, p.Sets)
		switch p.TLS {
		case "static":
			cfg.TLSConfig = &tls.Config{ServerName: "localhost", MinVersion: tls.VersionTLS12}
		case "static-roots":
			// a static configuration that brings trust roots of its own
			rc, _, _ := vp.GenCert()
			cfg.TLSConfig = &tls.Config{ServerName: "localhost", MinVersion: tls.VersionTLS12, RootCAs: vp.PoolOf(rc)}
		case "auto":
			cfg.AutoMTLS = true
		}
		var sr *vp.ScriptRunner
		if p.Real {
			d := caseDir(c.ID, "")
			after := map[string]string{"open": "hang", "close": "closeStdout", "exit": "exit"}[p.End]
			cf := writeCfg(d, map[string]any{"mode": "raw", "lineHex": hex.EncodeToString(p.Line), "after": after})
			cfg.Cmd = exec.Command(pluginBin, cf)
			cfg.Cmd.Env = []string{"TMPDIR=" + d}
		} else {
			cfg.RunnerFunc = func(l hclog.Logger, cmd *exec.Cmd, tmp string) (runner.Runner, error) {
				sr = vp.NewScriptRunner(func(r *vp.ScriptRunner) {
					r.Out.Write(p.Line)
					switch p.End {
					case "close":
						r.Out.Close()
					case "exit":
						r.Exit()
					}
				})
				return sr, nil
			}
			cfg.UnixSocketConfig = &plugin.UnixSocketConfig{TempDir: caseDir(c.ID, "")}
		}
		cl := plugin.NewClient(cfg)
		var o spec.C01Obs
		H := hangAfter(cfg.StartTimeout)
		e.Call("h", "Start", nil)
		ok, el, dump := within(H, func() {
			defer func() {
				if r := recover(); r != nil {
					o.Panic = fmt.Sprint(r)
				}
			}()
			addr, err := cl.Start()
			o.ErrNil = err == nil
			o.Err = errStr(err)
			if addr == nil {
				o.AddrNil = true
			} else if v := reflect.ValueOf(addr); v.Kind() == reflect.Ptr && v.IsNil() {
				o.AddrTypedNil = true
			} else {
				o.Net, o.Addr = addr.Network(), []byte(addr.String())
			}
			if err != nil {
				// a rejected line leaves nothing behind: asked again, the client still says no
				a2, err2 := cl.Start()
				o.RetryOK = err2 == nil
				if a2 != nil && !(reflect.ValueOf(a2).Kind() == reflect.Ptr && reflect.ValueOf(a2).IsNil()) {
					o.RetryAddr = a2.Network() + " " + a2.String()
				}
				o.RetryProtocol = string(cl.Protocol())
				o.RetryRC = cl.ReattachConfig() != nil
			}
			if err == nil && addr != nil && !o.AddrTypedNil {
				o.Protocol = string(cl.Protocol())
				o.Version = cl.NegotiatedVersion()
				// what the client remembers: a second Start and the reattach config name the same address
				if a2, err2 := cl.Start(); err2 != nil || a2 == nil {
					o.Addr2 = []byte("error: " + errStr(err2))
				} else {
					o.Addr2 = []byte(a2.Network() + " " + a2.String())
				}
				if sr == nil {
					if rc := cl.ReattachConfig(); rc != nil && rc.Addr != nil {
						o.AddrRC = []byte(rc.Addr.Network() + " " + rc.Addr.String())
					}
				}
			}
		})
		o.Returned, o.ElapsedMs, o.Dump = ok, el.Milliseconds(), dump
		if ok {
			kok, _, _ := within(300*time.Second, cl.Kill) // (well above the OS's TCP connect timeout: Kill dials the announced address)
			o.KillReturned = kok
		}
		if sr != nil {
			o.Kills, o.Starts = int(sr.Kills.Load()), int(sr.Starts.Load())
			sr.Exit()
		}
		e.Ret("h", "Start", o)
	})
}
