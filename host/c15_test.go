package host

import (
	"context"
	"errors"
	"fmt"
	"strings"
	"sync"
	"syscall"
	"testing"
	"time"

	plugin "github.com/hashicorp/go-plugin"
	"verif/spec"
	"verif/vp"
)

type c15Client struct {
	c   *plugin.Client
	cli vp.Cli
}

func c15Attach(rc *plugin.ReattachConfig, wire string) (*c15Client, error) {
	cfg := baseClientConfig()
	hostSetFor(cfg, wire)
	cfg.Reattach = rc
	c := plugin.NewClient(cfg)
	cp, err := c.Client()
	if err != nil {
		return &c15Client{c: c}, err
	}
	raw, err := cp.Dispense("kv")
	if err != nil {
		return &c15Client{c: c}, err
	}
	return &c15Client{c: c, cli: raw.(vp.Cli)}, nil
}

// allExited polls every client of the (dead) plugin for up to 8 s: reattached clients notice through a
// once-a-second pid poll.
func allExited(clients []*c15Client) []bool {
	out := make([]bool, len(clients))
	t0 := time.Now()
	for {
		all := true
		for i, c := range clients {
			out[i] = c.c.Exited()
			all = all && out[i]
		}
		if all || time.Since(t0) > 8*time.Second {
			return out
		}
		time.Sleep(50 * time.Millisecond)
	}
}

func TestC15(t *testing.T) {
	forCases(t, 12, func(c spec.Case, e Em) {
		var p spec.C15Case
		param(c, &p)
		var o spec.C15Obs
		var clients []*c15Client // index 0 = A (proc mode) or first reattached (test mode)
		pid := 0
		var rcServer *plugin.ReattachConfig
		var cancel context.CancelFunc
		closeCh := make(chan struct{})
		var l *launched
		if p.Mode == "proc" {
			cfg := baseClientConfig()
			hostSetFor(cfg, p.Proto)
			l = prepare(c.ID, "", pluginCfgFor(p.Proto), cfg, "cmd")
			defer l.hardKill()
			cp, err := l.Client.Client()
			if err != nil {
				o.SetupErr = err.Error()
				e.Obs("c15end", o)
				return
			}
			raw, err := cp.Dispense("kv")
			if err != nil {
				o.SetupErr = err.Error()
				e.Obs("c15end", o)
				return
			}
			a := &c15Client{c: l.Client, cli: raw.(vp.Cli)}
			clients = append(clients, a)
			m, _ := a.cli.Do("tag")
			o.InstanceA = vp.Str(m, "instance")
			o.ProtoA = string(l.Client.Protocol())
			pid = l.pid()
		} else {
			// in-process test-mode server
			ctx, cf := context.WithCancel(context.Background())
			cancel = cf
			ch := make(chan *plugin.ReattachConfig, 1)
			core := vp.NewCore()
			sc := &plugin.ServeConfig{
				HandshakeConfig: plugin.HandshakeConfig{ProtocolVersion: 1, MagicCookieKey: spec.CookieKey, MagicCookieValue: spec.CookieValue},
				Plugins:         vp.Set(p.Proto, 1, []string{"kv"}, core),
				Logger:          quietLogger(),
				Test:            &plugin.ServeTestConfig{Context: ctx, ReattachConfigCh: ch, CloseCh: closeCh},
			}
			if p.VersionSkew {
				sc.HandshakeConfig.ProtocolVersion = 0
				sc.VersionedPlugins = map[int]plugin.PluginSet{3: sc.Plugins}
				sc.Plugins = nil
			}
			if p.Proto == "grpc" {
				sc.GRPCServer = plugin.DefaultGRPCServer
			}
			go plugin.Serve(sc)
			select {
			case rcServer = <-ch:
			case <-time.After(10 * time.Second):
				o.SetupErr = "test-mode server did not send a reattach config"
				e.Obs("c15end", o)
				return
			}
			o.InstanceA = core.Instance
			o.ProtoA = string(rcServer.Protocol)
		}
		serving := func() bool {
			if rcServer == nil {
				return false
			}
			x, err := c15Attach(rcServer, p.Proto)
			if err != nil || x.cli == nil {
				return false
			}
			_, err = x.cli.Do("tag")
			return err == nil
		}
		for _, st := range p.Steps {
			name, arg, _ := strings.Cut(st, ":")
			s := spec.C15Step{Step: st}
			e.Call("h", st, nil)
			ok, _, _ := within(30*time.Second, func() {
				idx := 0
				if len(arg) > 0 && arg[0] >= '0' && arg[0] <= '9' {
					fmt.Sscan(arg, &idx)
				}
				pickC := func() *c15Client {
					if idx < len(clients) {
						return clients[idx]
					}
					return nil
				}
				switch name {
				case "reattach", "reattach2": // reattach2 = from the last reattached client's own ReattachConfig
					var rc *plugin.ReattachConfig
					switch {
					case name == "reattach2" && len(clients) > 0:
						rc = clients[len(clients)-1].c.ReattachConfig()
					case p.Mode == "proc":
						rc = clients[0].c.ReattachConfig()
					default:
						rc = rcServer
					}
					if rc == nil {
						s.Err = "nil reattach config"
						return
					}
					x, err := c15Attach(rc, p.Proto)
					s.Err, s.OK = errStr(err), err == nil
					s.NotFound = errors.Is(err, plugin.ErrProcessNotFound)
					if err != nil && x != nil && x.c != nil {
						// a refused reattach stays refused when the same client is asked again
						_, err2 := x.c.Start()
						s.RetryOK, s.RetryErr = err2 == nil, errStr(err2)
						s.RetryProtocol = string(x.c.Protocol())
					}
					if err == nil {
						clients = append(clients, x)
						m, err := x.cli.Do("tag")
						if err != nil {
							s.OK, s.Err = false, "tag: "+err.Error()
						}
						s.Instance = vp.Str(m, "instance")
						s.Protocol = string(x.c.Protocol())
					}
				case "put":
					cl := pickC()
					if cl == nil || cl.cli == nil {
						s.Err = "no such client"
						return
					}
					k, v, _ := strings.Cut(strings.TrimPrefix(arg, fmt.Sprint(idx)+","), "=")
					m, err := cl.cli.Do("put", "k", k, "v", v)
					s.Err, s.OK, s.Instance = errStr(err), err == nil, vp.Str(m, "instance")
				case "get":
					cl := pickC()
					if cl == nil || cl.cli == nil {
						s.Err = "no such client"
						return
					}
					k := strings.TrimPrefix(arg, fmt.Sprint(idx)+",")
					m, err := cl.cli.Do("get", "k", k)
					s.Err, s.OK, s.Instance = errStr(err), err == nil, vp.Str(m, "instance")
					s.Value, s.Found = vp.Str(m, "v"), vp.Bool(m, "ok")
				case "kill":
					cl := pickC()
					if cl == nil {
						s.Err = "no such client"
						return
					}
					cl.c.Kill()
					s.OK, s.Exited = true, cl.c.Exited()
					if p.Mode == "proc" {
						s.AllExited = allExited(clients)
					}
					if p.Mode == "testmode" {
						s.Serving = serving()
						select {
						case <-closeCh:
							s.ClosedCh = true
						default:
						}
					}
				case "sigkill":
					// the plugin dies abruptly: it cannot remove its socket file
					killOurs(pid, syscall.SIGKILL)
					waitState(pid, 5*time.Second, "gone", "Z")
					for i := 0; i < 300 && !clients[0].c.Exited(); i++ {
						time.Sleep(10 * time.Millisecond)
					}
					s.OK, s.Exited = true, clients[0].c.Exited()
					s.AllExited = allExited(clients)
				case "cancel":
					cancel()
					select {
					case <-closeCh:
						s.ClosedCh, s.OK = true, true
					case <-time.After(20 * time.Second):
					}
					s.Serving = serving()
				case "conc":
					// concurrent put/get through client 0 and client 1, unique values
					var wg sync.WaitGroup
					var mu sync.Mutex
					for ci := 0; ci < 2 && ci < len(clients); ci++ {
						for g := 0; g < 2; g++ {
							wg.Add(1)
							go func(ci, g int) {
								defer wg.Done()
								for i := 0; i < p.ConcOps; i++ {
									op := spec.C15Op{Client: ci, Key: []string{"k1", "k2"}[(i+g)%2]}
									if (i+ci+g)%2 == 0 {
										op.Kind, op.Val = "put", fmt.Sprintf("c%dg%di%d", ci, g, i)
									} else {
										op.Kind = "get"
									}
									op.Call = L.Now()
									var m vp.M
									var err error
									if op.Kind == "put" {
										m, err = clients[ci].cli.Do("put", "k", op.Key, "v", op.Val)
									} else {
										m, err = clients[ci].cli.Do("get", "k", op.Key)
										op.Got, op.Found = vp.Str(m, "v"), vp.Bool(m, "ok")
									}
									op.Ret = L.Now()
									op.Err = errStr(err)
									mu.Lock()
									o.Ops = append(o.Ops, op)
									mu.Unlock()
								}
							}(ci, g)
						}
					}
					wg.Wait()
					s.OK = true
				}
			})
			s.Returned = ok
			if pid > 0 {
				s.State = procState(pid)
				if name == "kill" && s.State == "Z" {
					s.State = waitState(pid, 3*time.Second, "gone")
				}
			}
			o.Steps = append(o.Steps, s)
			e.Ret("h", st, s)
		}
		if cancel != nil {
			cancel()
		}
		for _, cl := range clients {
			within(20*time.Second, cl.c.Kill)
		}
		e.Obs("c15end", o)
	})
}
